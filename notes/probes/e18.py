"""Throw-away: C15 reference laws; C16 pandas/file bulk vs scalar; C13 loaders."""
import warnings, random, collections, json, sys, itertools, tempfile, csv; warnings.simplefilter("ignore")
from pathlib import Path
import pandas as pd, pydantic
import curies
from curies import Converter, Record, Reference, ReferenceTuple, NamableReference, NamedReference
from curies.triples import Triple, write_triples, read_triples
rng = random.Random(int(sys.argv[1]) if len(sys.argv)>1 else 0)
stats=collections.Counter(); ex={}
def note(k,*v): stats[k]+=1; ex.setdefault(k,v)
PFX=["a","A","","é","a.b","x y"]; IDS=["","1","a:b",":","é","a\tb",'q"z',"a\nb","a\rb"," s ","0001"]; NAMES=[None,"n","m",""]
d=Path(tempfile.mkdtemp())
def build(cls,p,i,n):
    if cls is ReferenceTuple: return ReferenceTuple(p,i)
    if cls is Reference: return Reference(prefix=p,identifier=i)
    if cls is NamableReference: return NamableReference(prefix=p,identifier=i,name=n)
    return NamedReference(prefix=p,identifier=i,name=n or "")
for it in range(3000):
    pool=[]
    for _ in range(5):
        cls=rng.choice([Reference,NamableReference,NamedReference]); p=rng.choice(PFX); i=rng.choice(IDS); n=rng.choice(NAMES)
        o=build(cls,p,i,n); pool.append((o,(p,i)))
        if o.curie!=f"{p}:{i}": note("curie print",p,i)
        kw={} if cls is Reference else {"name":n or ""} if cls is NamedReference else {"name":n}
        b=cls.from_curie(o.curie,**kw)
        if b!=o or (b.prefix,b.identifier)!=(p,i): note("from_curie roundtrip",cls.__name__,p,i)
        if Reference.model_validate(o.curie)!=o: note("str validate",p,i)
        j=cls.model_validate_json(o.model_dump_json())
        if j!=o or getattr(j,"name",None)!=getattr(o,"name",None): note("json roundtrip",cls.__name__,p,i)
        t=ReferenceTuple.from_curie(o.curie)
        if t!=(p,i) or t.curie!=o.curie or o.pair!=t: note("tuple",p,i)
        try:
            o.prefix="zz"; note("mutable",cls.__name__)
        except pydantic.ValidationError: pass
    for (x,kx),(y,ky) in itertools.product(pool,repeat=2):
        if (x==y)!=(kx==ky): note("eq",repr(x),repr(y))
        if kx==ky and hash(x)!=hash(y): note("hash",repr(x),repr(y))
        if (x<y)!=(kx<ky): note("lt",repr(x),repr(y))
    if [ (o.prefix,o.identifier) for o in sorted(o for o,_ in pool)]!=sorted(k for _,k in pool): note("sorted")
    for bad in ["nodelim",""]:
        for f in (Reference.from_curie, ReferenceTuple.from_curie, Reference.model_validate):
            try: f(bad); note("accepts separator-free",bad)
            except ValueError: pass
    trs=[Triple(subject=pool[0][0],predicate=pool[1][0],object=pool[2][0])]
    for name in ("t.tsv","t.tsv.gz"):
        write_triples(trs,d/name); back=read_triples(d/name)
        if [(t.subject.pair,t.predicate.pair,t.object.pair) for t in back]!=[(t.subject.pair,t.predicate.pair,t.object.pair) for t in trs]: note("triples rt",name,[t.model_dump() for t in trs])
    stats["c15"]+=1
# converter context
c=Converter([Record(prefix="a",uri_prefix="http://a/",prefix_synonyms=["A",""])])
for p,exp in [("a","a"),("A","a"),("","a"),("zz",None)]:
    for f in (lambda: Reference.from_curie(f"{p}:1",converter=c), lambda: Reference.model_validate({"prefix":p,"identifier":"1"},context=c), lambda: NamedReference.from_curie(f"{p}:1","n",converter=c), lambda: Reference.model_validate(f"{p}:1",context={"converter":c})):
        try:
            r=f(); 
            if r.prefix!=exp: note("ctx standardize",p,r.prefix)
        except pydantic.ValidationError:
            if exp is not None: note("ctx rejects known",p)
# C16 pandas
c=Converter([Record(prefix="a",uri_prefix="http://a/",prefix_synonyms=["A"],uri_prefix_synonyms=["http://b/"])])
CELLS=["http://a/1","http://b/2","a:1","A:2","zz:1","nodelim","","http://zz/1","a:"]
for it in range(1500):
    n=rng.randint(0,6); col=[rng.choice(CELLS) for _ in range(n)]; other=[str(i) for i in range(n)]
    for name,scalar,amb in [("pd_compress",c.compress,False),("pd_compress",c.compress_or_standardize,True),("pd_expand",c.expand,False),("pd_expand",c.expand_or_standardize,True),("pd_standardize_curie",c.standardize_curie,None),("pd_standardize_uri",c.standardize_uri,None),("pd_standardize_prefix",c.standardize_prefix,None)]:
        for strict,pt in [(False,False),(False,True),(True,False)]:
            for tgt in (None,"t"):
                df=pd.DataFrame({"u":col,"o":other}); kw=dict(strict=strict,passthrough=pt)
                if amb is not None: kw["ambiguous"]=amb
                try: exp=[scalar(x,strict=strict,passthrough=pt) for x in col]; err=None
                except ValueError as e: err=type(e)
                try:
                    if amb is None: getattr(c,name)(df,column="u",target_column=tgt,**kw)
                    else: getattr(c,name)(df,"u",target_column=tgt,**kw)
                    if err: note("pd no raise",name,col,kw); continue
                except ValueError as e:
                    if not err or type(e) is not err: note("pd raise mismatch",name,col,kw,type(e).__name__)
                    continue
                got=list(df[tgt or "u"])
                if len(got)!=len(exp) or any((pd.isna(g) if e is None else g==e) is not True and not (e is None and pd.isna(g)) for g,e in zip(got,exp)): note("pd values",name,col,kw,got,exp)
                if list(df["o"])!=other or (tgt and list(df["u"])!=col): note("pd other columns",name)
                stats["c16pd"]+=1
print(stats)
for k,v in ex.items(): print(k, json.dumps(v, default=str, ensure_ascii=False)[:600])

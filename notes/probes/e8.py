import warnings, random, copy, json, collections; warnings.simplefilter("ignore")
from curies import Converter, Record, chain
rng = random.Random(3)
PA = ["a","A","b","B","ab","c",""]
UA = ["u/","U/","u/x","v/","v","", "w#"]
def rec():
    p = rng.choice(PA); u = rng.choice(UA)
    ps = sorted({q for q in rng.sample(PA, k=rng.randint(0,2)) if q!=p})
    us = sorted({q for q in rng.sample(UA, k=rng.randint(0,2)) if q!=u})
    return Record(prefix=p, uri_prefix=u, prefix_synonyms=ps, uri_prefix_synonyms=us, pattern=rng.choice([None,None,"x+"]))
def snapshot(c):
    return (sorted(json.dumps(r.model_dump(), sort_keys=True) for r in c.records), dict(c.prefix_map), dict(c.synonym_to_prefix), dict(c.reverse_prefix_map), dict(c.trie.items()), dict(c.pattern_map))
def fresh_view(c):
    f = Converter([r.model_copy(deep=True) for r in c.records])
    return (dict(f.prefix_map), dict(f.synonym_to_prefix), dict(f.reverse_prefix_map), dict(f.trie.items()), dict(f.pattern_map))
stats = collections.Counter(); ex={}
for it in range(30000):
    c = Converter([])
    for step in range(rng.randint(1,7)):
        r = rec(); cs = rng.random()<0.6; mg = rng.random()<0.6
        before = snapshot(c)
        try:
            c.add_record(r, case_sensitive=cs, merge=mg)
            stats["ok"]+=1
        except ValueError as e:
            stats["rejected"]+=1
            if snapshot(c) != before:
                stats["REJECT-MUTATED"]+=1; ex.setdefault("rm", (before, snapshot(c)))
            continue
        try:
            fv = fresh_view(c)
        except Exception as e:
            stats["FRESH-FAILS:"+type(e).__name__]+=1; ex.setdefault("ff", ([x.model_dump() for x in c.records], r.model_dump(), cs, mg, str(e)[:300])); break
        s = snapshot(c)
        if s[1:] != fv:
            stats["DRIFT"]+=1; ex.setdefault("drift", ([x.model_dump() for x in c.records], r.model_dump(), cs, mg, [ (a,b) for a,b in zip(s[1:],fv) if a!=b]))
print(stats)
for k,v in ex.items(): print(k, json.dumps(v, default=str)[:1500])

import warnings, json, tempfile; warnings.simplefilter("ignore")
from pathlib import Path
import rdflib, curies
from curies import Converter, Record, discover
g = rdflib.Graph(bind_namespaces="none")
g.bind("", "http://default/"); g.bind("x", "http://x/")
c = Converter.from_rdflib(g); print(c.bimap)
g = rdflib.Graph(); g.bind("x", "http://x/"); print(len(Converter.from_rdflib(g).bimap))
nm = rdflib.namespace.NamespaceManager(rdflib.Graph(bind_namespaces="none"), bind_namespaces="none"); nm.bind("y", "http://y/"); print(Converter.from_rdflib(nm).bimap)
# jsonld
ctx = {"@context": {"a": "http://a/", "@vocab": "http://v/", "": "http://e/", "b": {"@id": "http://b/", "@prefix": True}, "c": {"@id": "http://c/"}, "d": {"@id": "http://d/", "@prefix": False}, "e": 5, "f": None, "g": ["x"], "h": {"@prefix": True}}}
try: print(Converter.from_jsonld(ctx).bimap)
except Exception as e: print("ERR", type(e).__name__, e)
del ctx["@context"]["h"]; print(Converter.from_jsonld(ctx).bimap)
# reverse
print(Converter.from_reverse_prefix_map({"http://a/long": "a", "http://a/": "a", "http://b/": "a", "x": "b"}).records)
# discover
print(discover(["https://github.com/x/issues/12", "http://x/1", "http://x/a_1", "http://x/a_2", "http://y#z", "http://y#z", "nodelim", "http://q/é", "http://q/-"]).bimap)
print(discover(["http://x/1"], metaprefix="p:").compress("http://x/1"))
try: discover(["http://x/1"], delimiters=[""])
except Exception as e: print("ERR", type(e).__name__, e)
print(discover(["http://x/1","http://x/2","http://z/1"], cutoff=2).bimap, discover(["a/1"], cutoff=0).bimap)

import sys, types, warnings; warnings.simplefilter("ignore")
try:
    import python_multipart
    print("real python_multipart present")
except ImportError:
    m = types.ModuleType("python_multipart"); m.__version__ = "0.0.20"; sys.modules["python_multipart"] = m
    print("stubbed")
from curies import Converter, Record
from curies.mapping_service import get_fastapi_mapping_app, get_flask_mapping_app
from fastapi.testclient import TestClient
c = Converter([Record(prefix="a", uri_prefix="http://a/", uri_prefix_synonyms=["http://a/x_"])])
app = get_fastapi_mapping_app(c); cl = TestClient(app)
q = "SELECT ?s ?o WHERE { VALUES ?s { <http://a/x_1> } ?s owl:sameAs ?o }"
r = cl.get("/sparql", params={"query": q}, headers={"accept": "application/json"}); print(r.status_code, r.headers["content-type"], r.text[:200])
r = cl.get("/sparql", params={"query": q}); print(r.status_code, r.headers["content-type"], r.request.headers.get("accept"))
try:
    r = cl.post("/sparql", data={"query": q}, headers={"accept": "text/csv"}); print("POST", r.status_code, r.text[:200])
except Exception as e:
    print("POST ERR", type(e).__name__, str(e)[:200])

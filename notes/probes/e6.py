import warnings, random, copy, json, collections; warnings.simplefilter("ignore")
from curies import Converter, Record
from curies.reconciliation import *
from curies.reconciliation import DuplicateKeys, DuplicateValues, InconsistentMapping, CycleDetected, TransitiveError
rng = random.Random(1)
P = ["a","b","c","d","e","f","g"]
def gen_conv():
    n = rng.randint(1,4)
    names = rng.sample(P, k=min(len(P), n + rng.randint(0,3)))
    recs = []; i=0
    for k in range(n):
        if i >= len(names): break
        p = names[i]; i+=1
        syn = []
        while i < len(names) and rng.random()<0.4 and len(names)-i > (n-k-1):
            syn.append(names[i]); i+=1
        recs.append(dict(prefix=p, prefix_synonyms=syn, uri_prefix=f"http://{p}/", uri_prefix_synonyms=[f"http://{p}/{j}_" for j in range(rng.randint(0,2))]))
    return recs
fails = collections.Counter(); ex = {}
N=20000; errs=collections.Counter()
for it in range(N):
    recs = gen_conv()
    c = Converter([Record(**r) for r in recs])
    before_known = c.get_prefixes(include_synonyms=True)
    owner = {p: r["prefix"] for r in recs for p in [r["prefix"], *r["prefix_synonyms"]]}
    uri_of = {r["prefix"]: (r["uri_prefix"], sorted(r["uri_prefix_synonyms"])) for r in recs}
    keys = rng.sample(P+["x","y"], k=rng.randint(1,3))
    rem = {k: rng.choice(P+["x","y","z"]) for k in keys}
    try:
        nc = remap_curie_prefixes(c, rem)
    except (DuplicateKeys, DuplicateValues, InconsistentMapping, CycleDetected) as e:
        errs[type(e).__name__]+=1; continue
    except Exception as e:
        fails["unexpected:"+type(e).__name__]+=1; ex.setdefault("unexpected:"+type(e).__name__, (recs, rem, str(e)[:200])); continue
    errs["ok"]+=1
    # same number of records, URI side unchanged
    after_uri = sorted((r.uri_prefix, sorted(r.uri_prefix_synonyms)) for r in nc.records)
    if after_uri != sorted(uri_of.values()):
        fails["uri-side"]+=1; ex.setdefault("uri-side",(recs,rem))
    after_known = nc.get_prefixes(include_synonyms=True)
    if not before_known <= after_known:
        k = "lost-prefix"
        fails[k]+=1; ex.setdefault(k,(recs,rem, sorted(before_known-after_known), [r.model_dump() for r in nc.records]))
    # each old prefix still resolves to ... some record
print(errs); print(fails)
for k,v in ex.items(): print(k, json.dumps(v, default=str)[:1500])

"""Throw-away: C13 loader denotations."""
import warnings, random, collections, json, sys, itertools, tempfile; warnings.simplefilter("ignore")
from pathlib import Path
import rdflib, curies
from curies import Converter, Record, upgrade_prefix_map
import logging; logging.disable(logging.CRITICAL)
rng = random.Random(0); stats=collections.Counter(); ex={}
def note(k,*v): stats[k]+=1; ex.setdefault(k,v)
P=["a","A","b","ab","é","","@x","a.b"]; U=["u/","u/x","U/","v#","","http://x/","uu/","vv#"]
d=Path(tempfile.mkdtemp())
def recs(c): return sorted((r.prefix,r.uri_prefix,tuple(sorted(r.prefix_synonyms)),tuple(r.uri_prefix_synonyms)) for r in c.records)
def three(loader, obj, **kw):
    outs=[]
    for form in ("obj","str","path"):
        if form=="obj": a=obj
        else:
            p=d/"x.json"; p.write_text(json.dumps(obj)); a=str(p) if form=="str" else p
        try: outs.append(("ok",recs(loader(a,**kw))))
        except Exception as e: outs.append(("err",type(e).__name__))
    if not (outs[0]==outs[1]==outs[2]): note("file vs object",loader.__name__,obj,outs)
    return outs[0]
for it in range(5000):
    # prefix map
    pm={p:rng.choice(U) for p in rng.sample(P,k=rng.randint(0,4))}
    out=three(Converter.from_prefix_map, pm)
    dupu=len(set(pm.values()))<len(pm)
    if dupu != (out==("err","DuplicateURIPrefixes")): note("pm outcome",pm,out)
    if not dupu and out[1]!=sorted((p,u,(),()) for p,u in pm.items()): note("pm records",pm,out)
    # priority map
    ppm={p:rng.sample(U,k=rng.randint(1,3)) for p in rng.sample(P,k=rng.randint(0,3))}
    out=three(Converter.from_priority_prefix_map, ppm)
    allu=[u for us in ppm.values() for u in us]
    if (len(set(allu))<len(allu)) != (out[0]=="err"): note("ppm outcome",ppm,out)
    if out[0]=="ok" and out[1]!=sorted((p,us[0],(),tuple(us[1:])) for p,us in ppm.items()): note("ppm records",ppm,out)
    # reverse map
    rpm={u:rng.choice(P[:4]) for u in rng.sample(U,k=rng.randint(0,5))}
    out=three(Converter.from_reverse_prefix_map, rpm)
    if out[0]!="ok": note("rpm err",rpm,out)
    else:
        g=collections.defaultdict(list)
        for u,p in rpm.items(): g[p].append(u)
        got={r[0]:r for r in out[1]}
        for p,us in g.items():
            r=got.get(p)
            if r is None or len(r[1])!=min(map(len,us)) or sorted([r[1],*r[3]])!=sorted(us): note("rpm record",rpm,out)
        if set(got)!=set(g): note("rpm prefixes",rpm,out)
    # jsonld
    ctx={}
    for k in rng.sample(P+["@vocab","@base"],k=rng.randint(0,5)):
        ctx[k]=rng.choice([rng.choice(U), {"@id":rng.choice(U),"@prefix":True}, {"@id":rng.choice(U)}, {"@id":rng.choice(U),"@prefix":False}, 5, None, ["x"], {"@id":rng.choice(U),"@prefix":"true"}])
    exp={}
    for k,v in ctx.items():
        if not k or k.startswith("@"): continue
        if isinstance(v,str): exp[k]=v
        elif isinstance(v,dict) and v.get("@prefix") is True: exp[k]=v["@id"]
    out=three(Converter.from_jsonld, {"@context":ctx})
    if (len(set(exp.values()))<len(exp)) != (out[0]=="err"): note("jsonld outcome",ctx,out)
    if out[0]=="ok" and out[1]!=sorted((p,u,(),()) for p,u in exp.items()): note("jsonld records",ctx,out,exp)
    # upgrade_prefix_map all orders
    items=list(pm.items()); base=None
    for perm in itertools.permutations(items):
        r=[(x.prefix,x.uri_prefix,tuple(x.prefix_synonyms)) for x in upgrade_prefix_map(dict(perm))]
        if base is None: base=r
        elif r!=base: note("upgrade order",pm)
    g=collections.defaultdict(list)
    for p,u in pm.items(): g[u].append(p)
    if sorted(base)!=sorted((sorted(ps)[0],u,tuple(sorted(ps)[1:])) for u,ps in g.items()): note("upgrade records",pm,base)
    try: Converter(upgrade_prefix_map(pm))
    except Exception as e: note("upgrade not strict-valid",pm,type(e).__name__)
    # rdflib
    gph=rdflib.Graph(bind_namespaces="none"); bound={}
    for p in rng.sample(["a","b","","ab","A"],k=rng.randint(0,3)):
        gph.bind(p, rng.choice(["http://x/","http://y#","http://x/a_"]))
    den={p:str(n) for p,n in gph.namespaces()}
    for src in (gph, gph.namespace_manager):
        try:
            c=Converter.from_rdflib(src)
            if dict(c.bimap)!=den: note("rdflib",den,dict(c.bimap))
        except curies.DuplicateURIPrefixes:
            if len(set(den.values()))==len(den): note("rdflib spurious dup",den)
    stats["n"]+=1
print(stats)
for k,v in ex.items(): print(k, json.dumps(v, default=str, ensure_ascii=False)[:700])

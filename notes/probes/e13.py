import time, warnings; warnings.simplefilter("ignore")
from curies import Converter, Record
t=time.time(); N=20000
for i in range(N):
    c = Converter([Record(prefix="a", uri_prefix="http://a/", prefix_synonyms=["A"]), Record(prefix="b", uri_prefix="http://b/"), Record(prefix="c", uri_prefix="http://a/c", uri_prefix_synonyms=["x","y"])])
print("construct 3 recs: %.1f us" % ((time.time()-t)/N*1e6))
t=time.time()
for i in range(200000): c.compress("http://a/c123")
print("compress: %.2f us" % ((time.time()-t)/200000*1e6))
t=time.time()
for i in range(200000): c.expand("A:123")
print("expand: %.2f us" % ((time.time()-t)/200000*1e6))
import sys
print(sys.version, hasattr(sys, "monitoring"))

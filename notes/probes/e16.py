"""Throw-away: C04 clash iff; C09 chain fold model + subconverter."""
import warnings, random, collections, json, sys, itertools; warnings.simplefilter("ignore")
from curies import Converter, Record, chain
import curies.api as api
rng = random.Random(int(sys.argv[1]) if len(sys.argv)>1 else 0)
PA = ["a","A","b","B","ab","c","C",""]; UA = ["u/","U/","u/x","v/","V/","v","", "w#","W#"]
stats=collections.Counter(); ex={}
def note(k,*v): stats[k]+=1; ex.setdefault(k,v)
def rrec():
    p=rng.choice(PA); u=rng.choice(UA)
    ps=sorted({q for q in rng.sample(PA,k=rng.randint(0,2)) if q!=p}); us=sorted({q for q in rng.sample(UA,k=rng.randint(0,2)) if q!=u})
    return dict(prefix=p,uri_prefix=u,prefix_synonyms=ps,uri_prefix_synonyms=us)
def mk(r): return Record(**json.loads(json.dumps(r)))
def allp(r): return [r["prefix"],*r["prefix_synonyms"]]
def allu(r): return [r["uri_prefix"],*r["uri_prefix_synonyms"]]
# C04
for it in range(20000):
    recs=[rrec() for _ in range(rng.randint(0,4))]
    uclash={(i,j,x) for (i,a),(j,b) in itertools.combinations(enumerate(recs),2) for x in allu(a) if x in allu(b)}
    pclash={(i,j,x) for (i,a),(j,b) in itertools.combinations(enumerate(recs),2) for x in allp(a) if x in allp(b)}
    try:
        c=Converter([mk(r) for r in recs]); out="ok"
    except api.DuplicateURIPrefixes as e: out="U"; dups=e.duplicates
    except api.DuplicatePrefixes as e: out="P"; dups=e.duplicates
    exp="U" if uclash else "P" if pclash else "ok"
    stats["c04 "+exp]+=1
    if out!=exp: note("C04 outcome",recs,out,exp)
    elif out!="ok":
        want={x for *_,x in (uclash if out=="U" else pclash)}
        if {d.prefix for d in dups}!=want: note("C04 reported strings",recs,sorted(d.prefix for d in dups),sorted(want))
    else:
        if dict(c.bimap)!={v:k for k,v in c.reverse_bimap.items()} or len(c.bimap)!=len(recs): note("C04 bimap",recs)
# C09 chain
def fold(convs, cs):
    f=(lambda s:s) if cs else (lambda s:s.casefold())
    groups=[]
    for recs in convs:
        for r in recs:
            hit=[g for g in groups if ({f(x) for x in allp(r)} & {f(x) for x in g["p"]}) or ({f(x) for x in allu(r)} & {f(x) for x in g["u"]})]
            if len(hit)>1: return None
            if hit:
                g=hit[0]
                for x in allp(r):
                    if x not in g["p"]: g["p"].append(x)
                for x in allu(r):
                    if x not in g["u"]: g["u"].append(x)
            else: groups.append(dict(p=list(allp(r)),u=list(allu(r))))
    return groups
def valid(recs):
    ps=[x for r in recs for x in allp(r)]; us=[x for r in recs for x in allu(r)]
    return len(ps)==len(set(ps)) and len(us)==len(set(us))
def gconv():
    for _ in range(50):
        recs=[rrec() for _ in range(rng.randint(1,3))]
        if valid(recs): return recs
    return [rrec()]
for it in range(20000):
    convs=[gconv() for _ in range(rng.randint(1,3))]; cs=rng.random()<0.5
    # converter sorts its records by prefix at construction: model must fold in that order
    real=[Converter([mk(r) for r in recs]) for recs in convs]
    convs_sorted=[[r.model_dump() for r in c.records] for c in real]
    exp=fold(convs_sorted, cs)
    try: res=chain(real, case_sensitive=cs); out="ok"
    except ValueError: out="err"
    stats["c09 "+("err" if exp is None else "ok")]+=1
    if (exp is None)!=(out=="err"): note("C09 outcome",convs_sorted,cs,out); continue
    if exp is None: continue
    got=sorted((r.prefix,r.uri_prefix,tuple(sorted(r.prefix_synonyms)),tuple(sorted(r.uri_prefix_synonyms))) for r in res.records)
    want=sorted((g["p"][0],g["u"][0],tuple(sorted(g["p"][1:])),tuple(sorted(g["u"][1:]))) for g in exp)
    if got!=want: note("C09 records",convs_sorted,cs,got,want)
    if cs:
        c1=real[0]
        for p in c1.get_prefixes(include_synonyms=True):
            if res.expand_pair(p,"1")!=c1.expand_pair(p,"1"): note("C09 c1 priority",convs_sorted,p)
    else:
        ps=[x.casefold() for r in res.records for x in {y.casefold() for y in [r.prefix,*r.prefix_synonyms]}]
        if len(ps)!=len(set(ps)): note("C09 casefold dup",convs_sorted)
    # subconverter
    P=set(rng.sample(PA+["zz"],k=rng.randint(0,3)))
    sub=res.get_subconverter(P)
    wantsub=sorted(r.prefix for r in res.records if P & {r.prefix,*r.prefix_synonyms})
    if sorted(r.prefix for r in sub.records)!=wantsub: note("C09 sub records",convs_sorted,sorted(P))
print(stats)
for k,v in ex.items(): print(k, json.dumps(v, default=str, ensure_ascii=False)[:900])

import warnings; warnings.simplefilter("ignore")
from curies import Converter, Record
from curies.mapping_service import MappingServiceGraph, MappingServiceSPARQLProcessor, get_flask_mapping_app
from curies.mapping_service.utils import handle_header, parse_header, handle_json, handle_xml, handle_csv
for h in ["application/json", "text/html, application/json", "text/html,application/json;q=0.5", "application/json; q=0.5, text/csv;q=0.9", "application/json ;q=0.5,text/csv;q=0.9", "text/csv;q=0.2,application/json;q=0.9", "text/csv ; q=0.2 , application/json ; q=0.9", "*/*", "", None, "application/xml;q=0.1, text/json", "text/csv;q=1.0", " text/csv"]:
    try:
        print(repr(h), "->", handle_header(h))
    except Exception as e:
        print(repr(h), "RAISES", type(e).__name__, e)
c = Converter([Record(prefix="a", uri_prefix="http://a/", uri_prefix_synonyms=["http://a/x_", "http://A syn/"]), Record(prefix="b", uri_prefix="http://a/b/")])
g = MappingServiceGraph(converter=c)
p = MappingServiceSPARQLProcessor(graph=g)
def q(s): return sorted(tuple(map(str,r)) for r in g.query(s, processor=p))
print(q("SELECT ?o WHERE { VALUES ?s { <http://a/x_1> } ?s owl:sameAs ?o }"))
print(q("SELECT ?o WHERE { ?s owl:sameAs ?o } VALUES ?s { <http://a/x_1> }"))
print(q("SELECT ?s WHERE { VALUES ?o { <http://a/b/1> } ?s owl:sameAs ?o }"))
print(q("SELECT ?o WHERE { VALUES ?s { <http://zzz/1> } ?s owl:sameAs ?o }"))
print(q("SELECT ?o WHERE { VALUES ?s { <http://a/1> } ?s <http://www.w3.org/2004/02/skos/core#exactMatch> ?o }"))
g2 = MappingServiceGraph(converter=c, predicates=["http://www.w3.org/2002/07/owl#sameAs","http://www.w3.org/2004/02/skos/core#exactMatch"])
p2 = MappingServiceSPARQLProcessor(graph=g2)
print("multi-pred:", sorted(tuple(map(str,r)) for r in g2.query("SELECT ?o WHERE { VALUES ?s { <http://a/1> } ?s owl:sameAs ?o }", processor=p2)))
print("no-processor outside:", sorted(tuple(map(str,r)) for r in g.query("SELECT ?o WHERE { ?s owl:sameAs ?o } VALUES ?s { <http://a/x_1> }")))
app = get_flask_mapping_app(c).test_client()
for acc in ["application/json", "text/csv", None, "application/xml"]:
    hd = {"accept": acc} if acc else {}
    r = app.get("/sparql", query_string={"query": "SELECT ?s ?o WHERE { VALUES ?s { <http://a/x_1> } ?s owl:sameAs ?o }"}, headers=hd)
    print(acc, r.status_code, r.content_type, r.text[:100].replace("\n"," "))
    r = app.post("/sparql", data={"query": "SELECT ?s ?o WHERE { VALUES ?s { <http://a/x_1> } ?s owl:sameAs ?o }"}, headers=hd)
    print(" POST", r.status_code, r.content_type)

import warnings, json; warnings.simplefilter("ignore")
from curies import Converter, Record, chain, discover
from curies.reconciliation import *
def mk(): return Converter([Record(prefix="a", uri_prefix="http://a/", prefix_synonyms=["A"]), Record(prefix="b", uri_prefix="http://b/")])
def snap(c): return json.dumps([r.model_dump() for r in c.records], sort_keys=True), c.expand("a2:1"), c.expand("a:1"), c.compress("http://a2/1")
c1 = mk(); c2 = Converter([Record(prefix="a", uri_prefix="http://a2/", prefix_synonyms=["a2"])]); s=snap(c1); r = chain([c1,c2]); print("chain mutated c1:", snap(c1)!=s, snap(c1))
c1 = mk(); s=snap(c1); sub = c1.get_subconverter(["a"]); print("sub mutated (immediately):", snap(c1)!=s); sub.add_prefix("a", "http://a2/", prefix_synonyms=["a2"], merge=True); print("after add_prefix on sub:", snap(c1)!=s, snap(c1))
c1 = mk(); s=snap(c1); remap_curie_prefixes(c1, {"a":"z"}); print("remap_curie mutated:", snap(c1)!=s, c1.records[0], c1.expand("z:1"), c1.prefix_map)
c1 = mk(); s=snap(c1); remap_uri_prefixes(c1, {"http://a/":"http://z/"}); print("remap_uri mutated:", snap(c1)!=s)
c1 = mk(); s=snap(c1); rewire(c1, {"a":"http://z/"}); print("rewire mutated:", snap(c1)!=s)
c1 = mk(); s=snap(c1); discover(["http://a/1","http://q/1"], converter=c1); print("discover mutated:", snap(c1)!=s)

import curies, warnings
from curies import Converter, Record
from curies.api import *
c = Converter([Record(prefix="", uri_prefix="http://d/"), Record(prefix="a", uri_prefix="http://a/", prefix_synonyms=["A"], uri_prefix_synonyms=["", "http://a/x"])])
print("expand ':x' ->", c.expand(":x"), "| std_prefix('')", c.standardize_prefix(""), c.is_curie(":x"))
print("compress http://d/1 ->", repr(c.compress("http://d/1")))
print("compress anything ->", repr(c.compress("zzz")), repr(c.compress("")))
print("parse_uri '' ->", c.parse_uri("", return_none=True))
for f in ["expand","standardize_curie","expand_all","parse_curie","expand_or_standardize","compress_or_standardize", "is_curie"]:
    for kw in [{}, {"strict":True}, {"passthrough":True}]:
        if f in ("expand_all","parse_curie") and "passthrough" in kw: continue
        if f=="is_curie" and kw: continue
        try:
            print(f, kw, "->", repr(getattr(c,f)("nodelim", **kw)))
        except Exception as e:
            print(f, kw, "RAISES", type(e).__name__, e)
# empty trie key
c2 = Converter([Record(prefix="a", uri_prefix="http://a/")])
print(c2.compress(""), c2.compress("http://a/"), c2.compress("http://a"))
# delimiter
c3 = Converter([Record(prefix="a", uri_prefix="http://a/")], delimiter="/")
print(c3.compress("http://a/1"), c3.expand("a/1/2"), c3.get_subconverter(["a"]).delimiter, curies.chain([c3]).delimiter)

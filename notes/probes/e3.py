import warnings; warnings.simplefilter("ignore")
from curies import Converter, Record
from curies.resolver_service import get_flask_app, get_fastapi_app
from fastapi.testclient import TestClient
for delim in [":", "/"]:
    c = Converter([Record(prefix="doi", uri_prefix="https://doi.org/", prefix_synonyms=["DOI"]), Record(prefix="a.b", uri_prefix="http://ab/")], delimiter=delim)
    fl = get_flask_app(c).test_client()
    fa = TestClient(get_fastapi_app(c))
    for pfx in ["doi", "DOI", "nope", "a.b"]:
        for ident in ["1234", "10.1/abc", "x:y", "x:y/z", "a/b:c", "x%20y", "x?y=1"]:
            path = f"/{pfx}{delim}{ident}"
            r1 = fl.get(path, follow_redirects=False)
            r2 = fa.get(path, follow_redirects=False)
            exp = c.expand(f"{pfx}{delim}{ident}")
            ok = (r1.status_code, r1.headers.get("Location")) == (r2.status_code, r2.headers.get("location"))
            print(delim, path, "expand=",exp, "| flask", r1.status_code, r1.headers.get("Location"), "| fastapi", r2.status_code, r2.headers.get("location"), "" if ok else "  <<< DIFFER")

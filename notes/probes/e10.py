import warnings, random, copy, json, collections; warnings.simplefilter("ignore")
from curies import Converter, Record
from curies.reconciliation import *
from curies.reconciliation import TransitiveError
rng = random.Random(5)
PA = ["a","b","c","d","e"]; UA = ["u1","u2","u3","u4","u5","u6","u7"]
def gen():
    ps = rng.sample(PA, k=len(PA)); us = rng.sample(UA, k=len(UA)); recs=[]
    n = rng.randint(1,3)
    for i in range(n):
        if not ps or not us: break
        p = ps.pop(); u = us.pop()
        psy = [ps.pop() for _ in range(rng.randint(0,1)) if len(ps)>n]
        usy = [us.pop() for _ in range(rng.randint(0,2)) if len(us)>n]
        recs.append(dict(prefix=p, uri_prefix=u, prefix_synonyms=sorted(psy), uri_prefix_synonyms=sorted(usy)))
    return recs
stats = collections.Counter(); ex={}
def note(k,*v): stats[k]+=1; ex.setdefault(k,v)
def mk(recs): return Converter([Record(**copy.deepcopy(r)) for r in recs])
for it in range(40000):
    recs = gen()
    owner_u = {u: r["prefix"] for r in recs for u in [r["uri_prefix"], *r["uri_prefix_synonyms"]]}
    byp = {r["prefix"]: r for r in recs}
    mode = rng.choice(["uri","rewire"])
    if mode=="uri":
        ks = rng.sample(UA+["x1","x2"], k=rng.randint(1,3)); vs = rng.sample(UA+["y1","y2","x1"], k=len(ks)); m = dict(zip(ks,vs))
        inter = set(m) & set(m.values())
        try:
            nc = remap_uri_prefixes(mk(recs), m)
            if inter: note("missing TransitiveError", recs, m)
        except TransitiveError:
            if not inter: note("spurious TransitiveError", recs, m)
            stats["transitive"]+=1; continue
    else:
        ks = rng.sample(PA+["zz"], k=rng.randint(1,3)); vs = rng.sample(UA+["y1","y2"], k=len(ks)); m = dict(zip(ks,vs))
        nc = rewire(mk(recs), m)
        nc2 = rewire(rewire(mk(recs), m), m)
        if sorted(json.dumps(r.model_dump(),sort_keys=True) for r in nc.records) != sorted(json.dumps(r.model_dump(),sort_keys=True) for r in nc2.records): note("rewire not idempotent", recs, m)
    stats["ok-"+mode]+=1
    after = {r.prefix: r for r in nc.records}
    if set(after) != set(byp): note("prefix set changed", recs, m); continue
    for p, r in byp.items():
        a = after[p]
        if sorted(a.prefix_synonyms) != sorted(r["prefix_synonyms"]): note("curie synonyms changed", recs, m)
        old = {r["uri_prefix"], *r["uri_prefix_synonyms"]}; new = {a.uri_prefix, *a.uri_prefix_synonyms}
        if not old <= new: note("lost uri prefix", recs, m, mode)
        # mapped new one
        if mode=="uri":
            hits = [m[k] for k in [r["uri_prefix"], *r["uri_prefix_synonyms"]] if k in m]
        else:
            hits = [m[k] for k in [r["prefix"], *r["prefix_synonyms"]] if k in m]
        gained = new - old
        if len(gained)>1 or not gained <= set(hits): note("gained wrong", recs, m, mode)
        if len(hits)==1:
            n = hits[0]
            should = (n not in owner_u) or (owner_u[n]==p)
            if should and a.uri_prefix != n: note("should be canonical but not", recs, m, mode, p, n, a.model_dump())
            if not should and (a.uri_prefix != r["uri_prefix"] or new != old): note("clash not noop", recs, m, mode)
        if not hits and (a.uri_prefix != r["uri_prefix"] or new != old): note("untouched changed", recs, m, mode)
print(stats)
for k,v in ex.items(): print(k, json.dumps(v, default=str)[:900])

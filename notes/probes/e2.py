from curies.w3c import is_w3c_prefix, is_w3c_curie
for s in ["GO\n", "GO", "_", "a.b-c", "1a", "", "a b", "é"]:
    print(repr(s), is_w3c_prefix(s))
print("---curie")
for s in ["p:a b", "p://x", "//x", "p:a\n", "a b", "p:", ":", ":/", "p:/a", "p:/", "/", "p:x//y", " ", "p:\t", "a:b:c", "é:x", "p:é", "p: x", " p:x", "p:x ", "\np:x", "p:/ x", "p:a/b c", "p::", "::", ":a:"]:
    print(repr(s), is_w3c_curie(s))

"""Feasibility probe: wrap every public Converter method + module functions, count events, run repo tests."""
import functools, inspect, sys, collections
COUNTS = collections.Counter(); REBOUND = collections.Counter()
def wrap(name, fn):
    @functools.wraps(fn)
    def w(*a, **k):
        COUNTS[name] += 1
        return fn(*a, **k)
    w.__rtmon_wrapped__ = fn
    return w
def install():
    import curies, curies.api as api, curies.reconciliation, curies.discovery, curies.w3c, curies.triples
    C = api.Converter
    for name, attr in list(vars(C).items()):
        if name.startswith("_") and name != "__init__": continue
        if isinstance(attr, classmethod):
            setattr(C, name, classmethod(wrap("Converter."+name, attr.__func__)))
        elif isinstance(attr, staticmethod):
            setattr(C, name, staticmethod(wrap("Converter."+name, attr.__func__)))
        elif inspect.isfunction(attr):
            setattr(C, name, wrap("Converter."+name, attr))
    targets = [(api, n) for n in ["chain","upgrade_prefix_map","load_prefix_map","load_extended_prefix_map","load_jsonld_context","load_shacl","write_extended_prefix_map","write_jsonld_context","write_shacl","write_tsv","_split"]]
    targets += [(curies.reconciliation, n) for n in ["remap_curie_prefixes","remap_uri_prefixes","rewire"]] + [(curies.discovery, "discover"), (curies.w3c, "is_w3c_prefix"), (curies.w3c, "is_w3c_curie"), (curies.triples, "write_triples"), (curies.triples, "read_triples")]
    for mod, n in targets:
        orig = getattr(mod, n); w = wrap(mod.__name__+"."+n, orig)
        for m in list(sys.modules.values()):
            if m is None or not getattr(m, "__name__", "").startswith("curies"): continue
            for gname, g in list(vars(m).items()):
                if g is orig:
                    setattr(m, gname, w); REBOUND[mod.__name__+"."+n] += 1
LINES = set()
def cover():
    mon = sys.monitoring; TID = 4
    mon.use_tool_id(TID, "rtmon-feas")
    def on_line(code, line):
        if "/curies/" in code.co_filename:
            LINES.add((code.co_filename.rsplit("/",1)[1], line))
        return mon.DISABLE
    mon.register_callback(TID, mon.events.LINE, on_line)
    mon.set_events(TID, mon.events.LINE)
def pytest_configure(config):
    install(); cover()
def pytest_sessionfinish(session, exitstatus):
    print("\nRTMON events:", sum(COUNTS.values()), "distinct ops:", len(COUNTS))
    print(COUNTS.most_common(12)); print("rebound:", dict(REBOUND))
    by = collections.Counter(f for f, _ in LINES); print("lines hit:", dict(by))

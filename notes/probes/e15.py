"""Throw-away differential: naive spec vs real Converter on C01/C02/C03/C06/C07/C08."""
import warnings, random, collections, json, sys, itertools; warnings.simplefilter("ignore")
import curies
from curies import Converter, Record
import curies.api as api
rng = random.Random(int(sys.argv[1]) if len(sys.argv)>1 else 0)
UATOMS = ["", "h", "http://x/", "http://x/a", "http://x/a_", "http://x/a/", "http://x/A_", "GO:", "http://é/", "u#", "GO", "http"]
PATOMS = ["a","A","b","ab","a.b","GO","go","http","é",""]
DELIMS = [":", "/", "::", "_", "|"]
IDS = ["", "1", "0001", "a/b", "a#b", "a b", "é", "x", "a_1", "A_", "//x"]
class Spec:
    def __init__(s, recs, d): s.recs=recs; s.d=d
    def uowner(s,u):
        best=None
        for r in s.recs:
            for p in [r["uri_prefix"],*r["uri_prefix_synonyms"]]:
                if u.startswith(p) and (best is None or len(p)>len(best[0])): best=(p,r)
        return best
    def powner(s,p):
        for r in s.recs:
            if p==r["prefix"] or p in r["prefix_synonyms"]: return r
    def parse_uri(s,u):
        b=s.uowner(u); return None if b is None else (b[1]["prefix"], u[len(b[0]):])
    def compress(s,u):
        x=s.parse_uri(u); return None if x is None else x[0]+s.d+x[1]
    def parse_curie(s,c):
        i=c.find(s.d)
        if i<0: return None
        r=s.powner(c[:i]); return None if r is None else (r["prefix"], c[i+len(s.d):])
    def expand(s,c):
        x=s.parse_curie(c); return None if x is None else s.powner(x[0])["uri_prefix"]+x[1]
    def expand_all(s,c):
        x=s.parse_curie(c)
        if x is None: return None
        r=s.powner(x[0]); return [r["uri_prefix"]+x[1]]+[u+x[1] for u in r["uri_prefix_synonyms"]]
    def parse(s,x): return s.parse_uri(x) or s.parse_curie(x)   # tuples always truthy
    def std_prefix(s,p): r=s.powner(p); return None if r is None else r["prefix"]
    def std_curie(s,c): x=s.parse_curie(c); return None if x is None else x[0]+s.d+x[1]
    def std_uri(s,u): x=s.parse_uri(u); return None if x is None else s.powner(x[0])["uri_prefix"]+x[1]
def gen_recs(d):
    n=rng.randint(0,5); ups=rng.sample(UATOMS, k=len(UATOMS)); pps=[p for p in rng.sample(PATOMS,k=len(PATOMS)) if d not in p]
    # extend some uri atoms by a char for sibling variety
    recs=[]
    for i in range(n):
        if not ups or not pps: break
        r=dict(prefix=pps.pop(), uri_prefix=ups.pop(), prefix_synonyms=[], uri_prefix_synonyms=[], pattern=None)
        for _ in range(rng.randint(0,2)):
            if len(pps)>n-i: r["prefix_synonyms"].append(pps.pop())
        for _ in range(rng.randint(0,2)):
            if len(ups)>n-i: r["uri_prefix_synonyms"].append(ups.pop())
        recs.append(r)
    return recs
stats=collections.Counter(); ex={}
def note(k,*v): stats[k]+=1; ex.setdefault(k,v)
def call(f,*a,**k):
    try: return ("ret", f(*a,**k))
    except Exception as e: return ("exc", type(e))
LIB_ERRS = tuple(v for v in vars(api).values() if isinstance(v,type) and issubclass(v,ValueError))
for it in range(int(sys.argv[2]) if len(sys.argv)>2 else 3000):
    d=rng.choice(DELIMS); recs=gen_recs(d)
    order=recs[:]; rng.shuffle(order)
    if rng.random()<0.5:
        c=Converter([Record(**json.loads(json.dumps(r))) for r in order], delimiter=d)
    else:
        c=Converter([], delimiter=d)
        for r in order: c.add_record(Record(**json.loads(json.dumps(r))))
    s=Spec(recs,d)
    allu=[u for r in recs for u in [r["uri_prefix"],*r["uri_prefix_synonyms"]]]; allp=[p for r in recs for p in [r["prefix"],*r["prefix_synonyms"]]]
    qs={"", "zzz", d, "a"+d, d+"a"}
    for u in allu:
        qs|={u,u[:-1],u+"1",u+rng.choice(IDS)} | {u+ch for ch in "_/aA:"}
    for p in allp+["nope"]:
        for i in IDS[:6]+[d, "x"+d+"y"]: qs.add(p+d+i)
        qs.add(p)
    for q in qs:
        stats["queries"]+=1
        # C01
        e=s.parse_uri(q); got=call(c.parse_uri,q,return_none=True)
        if got!=("ret", e if e is None else api.ReferenceTuple(*e)): note("C01 parse_uri",recs,d,q,e,str(got))
        if call(c.compress,q)!=("ret",s.compress(q)): note("C01 compress",recs,d,q,s.compress(q),str(call(c.compress,q)))
        if call(c.is_uri,q)!=("ret",e is not None): note("C01 is_uri",recs,d,q)
        # C02 / C08
        for fn,sp in [("expand",s.expand),("standardize_curie",s.std_curie),("standardize_uri",s.std_uri),("standardize_prefix",s.std_prefix),("compress_or_standardize",lambda x:(lambda t: None if t is None else t[0]+d+t[1])(s.parse(x))),("expand_or_standardize",lambda x:(lambda t: None if t is None else s.powner(t[0])["uri_prefix"]+t[1])(s.parse(x)))]:
            exp=sp(q); f=getattr(c,fn)
            g0=call(f,q); g1=call(f,q,passthrough=True); g2=call(f,q,strict=True); g3=call(f,q,strict=True,passthrough=True)
            if g0!=("ret",exp): note(f"default {fn}: "+("raises" if g0[0]=="exc" else "wrong value"),recs,d,q,exp,str(g0))
            if g1!=("ret",exp if exp is not None else q): note(f"passthrough {fn}: "+("raises" if g1[0]=="exc" else "wrong value"),recs,d,q,exp,str(g1))
            for g in (g2,g3):
                if exp is not None and g!=("ret",exp): note(f"strict {fn} wrong",recs,d,q,exp,str(g))
                if exp is None and not (g[0]=="exc" and issubclass(g[1],LIB_ERRS)): note(f"strict {fn} no lib error",recs,d,q,str(g))
        ea=s.expand_all(q); ga=call(c.expand_all,q)
        if ga!=("ret",ea): note("expand_all: "+("raises" if ga[0]=="exc" else "wrong"),recs,d,q,ea,str(ga))
        pe=s.parse(q); gp=call(c.parse,q,strict=False)
        if gp!=("ret", pe if pe is None else api.ReferenceTuple(*pe)): note("parse",recs,d,q,pe,str(gp))
        ic=call(c.is_curie,q)
        if ic!=("ret", s.parse_curie(q) is not None): note("is_curie",recs,d,q,str(ic))
        # C03
        cq=s.compress(q)
        if cq is not None:
            if not any(d in p for p in allp):
                ra=call(c.expand_all,cq)
                if ra[0]!="ret" or ra[1] is None or q not in ra[1]: note("C03 u not in expand_all(compress(u))",recs,d,q,cq,str(ra))
                if call(c.expand,cq)!=call(c.standardize_uri,q): note("C03 expand(compress)!=standardize_uri",recs,d,q,cq,str(call(c.expand,cq)),str(call(c.standardize_uri,q)))
print(stats)
for k,v in ex.items(): print(k, json.dumps(v, default=str, ensure_ascii=False)[:700])

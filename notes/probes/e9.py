import warnings, tempfile, csv, io; warnings.simplefilter("ignore")
from pathlib import Path
import pandas as pd
from curies import Converter, Record
c = Converter([Record(prefix="a", uri_prefix="http://a/", prefix_synonyms=["A"])])
d = Path(tempfile.mkdtemp()); p = d/"f.tsv"
def write(rows, sep="\t"):
    with p.open("w", newline="") as f:
        csv.writer(f, delimiter=sep).writerows(rows)
def read(sep="\t"):
    with p.open(newline="") as f:
        return list(csv.reader(f, delimiter=sep))
rows = [["h1","h2","h3"],["x","http://a/1","y"],["x\ty","http://b/1",'q"z'],["cr\rcell","a:1","nl\ncell"],[" lead","http://a/ 2",""]]
write(rows); b0 = p.read_bytes()
c.file_compress(p, 1)
print(read()); 
write(rows); 
try:
    c.file_compress(p, 1, strict=True)
except Exception as e:
    print("raised", type(e).__name__, "unchanged:", p.read_bytes()==b0)
write(rows)
try:
    c.file_expand(p, 1)
except Exception as e:
    print("raised", type(e).__name__, "unchanged:", p.read_bytes()==b0)
write(rows); c.file_expand(p, 1, ambiguous=True); print(read())
write(rows); c.file_compress(p, 1, passthrough=True, header=False); print(read())
write([[ "a,b", "http://a/1"]], sep=","); c.file_compress(p, 1, sep=","); print(read(","))
# pandas
df = pd.DataFrame({"u": ["http://a/1", "http://b/1", "a:1", ""], "o": ["1","2","3","4"]})
c.pd_compress(df, "u", target_column="t"); print(df.to_dict("list"), df.dtypes.to_dict())
c.pd_compress(df, "u", passthrough=True); print(df.to_dict("list"))
df = pd.DataFrame({"u": ["a:1", "b:1", "A:2"]})
c.pd_expand(df, "u"); print(df.to_dict("list"))
df = pd.DataFrame({"u": ["a", "b", "A"]})
c.pd_standardize_prefix(df, column="u", target_column=3); print(df.to_dict("list"))
df = pd.DataFrame([["a:1", "x"]]); c.pd_expand(df, 0); print(df.to_dict("list"))

import warnings, tempfile, os, json; warnings.simplefilter("ignore")
from pathlib import Path
import curies
from curies import Converter, Record, Reference
from curies.triples import Triple, write_triples, read_triples
d = Path(tempfile.mkdtemp())
def shacl(recs, **kw):
    c = Converter(recs)
    p = d/"t.ttl"
    curies.write_shacl(c, p, **kw)
    try:
        nc = curies.load_shacl(p, strict=False)
        return nc.prefix_map, nc.pattern_map
    except Exception as e:
        return "ERR", type(e).__name__, str(e)[:100]
print(shacl([Record(prefix="a", uri_prefix="http://a/", pattern=r"^\d{7}$")]))
print(shacl([Record(prefix="a\\b", uri_prefix="http://a/")]))
print(shacl([Record(prefix="a", uri_prefix="http://a\\q/")]))
print(shacl([Record(prefix="a", uri_prefix="http://a/", pattern="^a\\\\b$")]))
print(shacl([Record(prefix="a b", uri_prefix="http://a b/", pattern="x y")]))
print(shacl([Record(prefix="é", uri_prefix="http://é/", pattern="é+")]))
print(shacl([Record(prefix="a", uri_prefix="http://a/", prefix_synonyms=["s"], pattern="p")], include_synonyms=True))
print(shacl([Record(prefix="a'", uri_prefix="http://a/{}", pattern="a{2}")]))
# tsv
c = Converter([Record(prefix="a b", uri_prefix="http://a/"), Record(prefix="q'x", uri_prefix="u, v")])
curies.write_tsv(c, d/"t.tsv"); print(repr((d/"t.tsv").read_bytes()))
# jsonld
c = Converter([Record(prefix="a", uri_prefix="http://a/", prefix_synonyms=["s"])])
for exp in [False, True]:
    curies.write_jsonld_context(c, d/"t.json", include_synonyms=True, expand=exp)
    try: print(curies.load_jsonld_context(d/"t.json").prefix_map)
    except Exception as e: print("strict load:", type(e).__name__)
    print(curies.load_jsonld_context(d/"t.json", strict=False).prefix_map)
# triples
for ident in ["x", "a\tb", 'a"b', "a\nb", "a\rb", " a ", "", "a:b"]:
    t = Triple(subject=Reference(prefix="p", identifier=ident), predicate=Reference(prefix="q", identifier="r"), object=Reference(prefix="", identifier="z"))
    write_triples([t], d/"tr.tsv")
    try:
        back = read_triples(d/"tr.tsv")
        print(repr(ident), back == [t], repr((d/"tr.tsv").read_bytes()) if back != [t] else "")
    except Exception as e:
        print(repr(ident), "ERR", type(e).__name__, e)

"""Throw-away: C19 discover contract; C14 round trips; C13 loaders."""
import warnings, random, collections, json, sys, itertools, tempfile, csv; warnings.simplefilter("ignore")
from pathlib import Path
import curies
from curies import Converter, Record, discover
rng = random.Random(int(sys.argv[1]) if len(sys.argv)>1 else 0)
stats=collections.Counter(); ex={}
def note(k,*v): stats[k]+=1; ex.setdefault(k,v)
HOSTS=["http://x/","http://x/a_","http://x/a/","http://y#","http://x/b#","https://github.com/o/r/issues/","z","http://x/a_b/"]
TAILS=["1","2","3","a1","é","a_1","a-1","","x/1","1#2","٣"]
def oracle(uris, delims, cutoff, meta, conv):
    d=collections.defaultdict(set)
    for u in set(uris):
        if conv is not None and conv.is_uri(u): continue
        if u.startswith("https://github.com") and "issues" in u: continue   # known special case
        for dl in delims:
            if dl in u:
                i=u.rfind(dl); tail=u[i+len(dl):]
                if tail.isalnum(): d[u[:i+len(dl)]].add(tail); break
    keep=sorted(p for p,l in d.items() if cutoff is None or len(l)>=cutoff)
    return {f"{meta}{i}":p for i,p in enumerate(keep,1)}
for it in range(20000):
    uris=[rng.choice(HOSTS)+rng.choice(TAILS) for _ in range(rng.randint(0,8))]
    delims=rng.choice([None,["/"],["#","/","_"],["_","/"],["a_","/"],["/","#"]]); cutoff=rng.choice([None,None,0,1,2,3]); meta=rng.choice(["ns","p","x_"])
    conv=rng.choice([None,None,Converter([Record(prefix="k",uri_prefix="http://x/a_")])])
    kw=dict(cutoff=cutoff,metaprefix=meta,converter=conv)
    if delims: kw["delimiters"]=delims
    res=discover(uris,**kw)
    exp=oracle(uris, delims or ["#","/","_"], cutoff, meta, conv)
    if dict(res.bimap)!=exp: note("C19 result",uris,delims,cutoff,dict(res.bimap),exp)
    sh=uris[:]; rng.shuffle(sh); sh+=sh[:2]
    if dict(discover(sh,**kw).bimap)!=dict(res.bimap): note("C19 order",uris)
    if cutoff is None:
        for u in set(uris):
            if conv is not None and conv.is_uri(u): continue
            q=any(dl in u and u[u.rfind(dl)+len(dl):].isalnum() for dl in (delims or ["#","/","_"]))
            if q:
                c=res.compress(u)
                if c is None or res.expand(c)!=u:
                    note("C19 roundtrip github" if (u.startswith("https://github.com") and "issues" in u) else "C19 roundtrip",uris,delims,u,c)
    stats["c19"]+=1
# C14
d=Path(tempfile.mkdtemp())
SAFE="abAB01 .-_:/#?=&'(){}[]|\\^$*+é~@!,;%"
def s(n=4, alpha=SAFE, nonempty=True):
    k=rng.randint(1 if nonempty else 0,n); return "".join(rng.choice(alpha) for _ in range(k))
def gconv(alpha, patt=True):
    for _ in range(100):
        n=rng.randint(1,4); recs=[]
        for i in range(n):
            recs.append(dict(prefix=s(3,alpha), uri_prefix=s(5,alpha), prefix_synonyms=[s(3,alpha) for _ in range(rng.randint(0,2))], uri_prefix_synonyms=[s(5,alpha) for _ in range(rng.randint(0,2))], pattern=(s(6,alpha) if patt and rng.random()<0.5 else None)))
        try: return Converter([Record(**r) for r in recs])
        except Exception: continue
for it in range(1500):
    c=gconv(SAFE+"\"<>\n\t\r "); p=d/"e.json"
    curies.write_extended_prefix_map(c,p); nc=curies.load_extended_prefix_map(p)
    key=lambda r:(r.prefix,r.uri_prefix,sorted(r.prefix_synonyms),sorted(r.uri_prefix_synonyms),r.pattern or None)
    if sorted(map(key,c.records))!=sorted(map(key,nc.records)): note("C14 epm",[r.model_dump() for r in c.records])
    c=gconv(SAFE); 
    if any((not x) or x.startswith("@") for x in c.get_prefixes(include_synonyms=True)): continue
    for exp in (False,True):
        for syn in (False,True):
            curies.write_jsonld_context(c,d/"j.json",include_synonyms=syn,expand=exp); nc=curies.load_jsonld_context(d/"j.json",strict=False)
            want=dict(c.prefix_map) if syn else dict(c.bimap)
            if dict(nc.prefix_map)!=want: note("C14 jsonld",[r.model_dump() for r in c.records],exp,syn,dict(nc.prefix_map))
    for syn in (False,True):
        curies.write_shacl(c,d/"s.ttl",include_synonyms=syn)
        try:
            nc=curies.load_shacl(d/"s.ttl",strict=False)
        except Exception as e:
            note("C14 shacl load error",[r.model_dump() for r in c.records],type(e).__name__,str(e)[:200]); continue
        want=dict(c.prefix_map) if syn else dict(c.bimap)
        wantpat={p:r.pattern for r in c.records for p in ([r.prefix,*r.prefix_synonyms] if syn else [r.prefix]) if r.pattern}
        if dict(nc.prefix_map)!=want: note("C14 shacl map",[r.model_dump() for r in c.records],syn,dict(nc.prefix_map))
        elif dict(nc.pattern_map)!=wantpat: note("C14 shacl pattern",[r.model_dump() for r in c.records],syn,dict(nc.pattern_map),wantpat)
    curies.write_tsv(c,d/"t.tsv")
    with (d/"t.tsv").open(newline="") as f: rows=list(csv.reader(f,delimiter="\t"))
    if dict(rows[1:])!=dict(c.bimap): note("C14 tsv",[r.model_dump() for r in c.records],rows)
    stats["c14"]+=1
print(stats)
for k,v in ex.items(): print(k, json.dumps(v, default=str, ensure_ascii=False)[:900])

import warnings, random, copy, json, collections; warnings.simplefilter("ignore")
from curies import Converter, Record
from curies.reconciliation import *
from curies.reconciliation import DuplicateKeys, DuplicateValues, InconsistentMapping, CycleDetected, TransitiveError
rng = random.Random(2)
P = ["a","b","c","d","e","f","g"]
def gen_conv():
    n = rng.randint(1,4)
    names = rng.sample(P, k=min(len(P), n + rng.randint(0,3)))
    recs = []; i=0
    for k in range(n):
        if i >= len(names): break
        p = names[i]; i+=1
        syn = []
        while i < len(names) and rng.random()<0.4 and len(names)-i > (n-k-1):
            syn.append(names[i]); i+=1
        recs.append(dict(prefix=p, prefix_synonyms=syn, uri_prefix=f"http://{p}/", uri_prefix_synonyms=[f"http://{p}/{j}_" for j in range(rng.randint(0,2))]))
    return recs
fails = collections.Counter(); ex = {}
N=30000; errs=collections.Counter()
def note(k, *v):
    fails[k]+=1; ex.setdefault(k, v)
for it in range(N):
    recs = gen_conv()
    c = Converter([Record(**copy.deepcopy(r)) for r in recs])
    known = {p: r["uri_prefix"] for r in recs for p in [r["prefix"], *r["prefix_synonyms"]]}   # prefix -> record id (uri_prefix)
    canon = {r["uri_prefix"]: r["prefix"] for r in recs}
    allp = {r["uri_prefix"]: {r["prefix"], *r["prefix_synonyms"]} for r in recs}
    keys = rng.sample(P+["x","y"], k=rng.randint(1,3))
    rem = {k: rng.choice([q for q in P+["x","y","z"] if q!=k]) for k in keys}
    try:
        nc = remap_curie_prefixes(c, rem)
    except (DuplicateKeys, DuplicateValues, InconsistentMapping, CycleDetected) as e:
        errs[type(e).__name__]+=1; continue
    errs["ok"]+=1
    after = {r.uri_prefix: r for r in nc.records}
    aknown = {p: r.uri_prefix for r in nc.records for p in [r.prefix, *r.prefix_synonyms]}
    applicable = {o: n for o, n in rem.items() if o in known}
    if not set(known) <= set(aknown): note("P3 lost", recs, rem, sorted(set(known)-set(aknown)))
    for o, n in applicable.items():
        if n not in known:
            if after[known[o]].prefix != n: note("P4 new-unused-not-canonical", recs, rem, o, n, [r.model_dump() for r in nc.records])
    if not set(aknown) <= set(known) | set(applicable.values()): note("P5 invention", recs, rem)
    for p, rid in known.items():
        if p in aknown and aknown[p] != rid:
            # must be handed over: p is value of an applicable pair k->p and new owner is record(k)
            ks = [k for k, v in applicable.items() if v == p]
            if not ks or aknown[p] != known[ks[0]]: note("P8 moved-without-handover", recs, rem, p)
    for o, n in applicable.items():
        if n in known and known[n] != known[o] and n not in applicable:
            # clash with other record that's not being handed over -> old's record untouched
            r = after[known[o]]
            if r.prefix != canon[known[o]] or {r.prefix, *r.prefix_synonyms} != allp[known[o]]:
                note("P6 clash-not-skipped", recs, rem, o, n, [r.model_dump() for r in nc.records])
print(errs); print(fails)
for k,v in ex.items(): print(k, json.dumps(v, default=str)[:1200])

#!/venv/bin/python
"""Mutant self-test: each monitor must fire on a small plausible break of its property.

For every mutant: copy /repo/src + /repo/tests to a scratch directory outside /repo and /verif, apply the edit, run the
repository's tests on the copy (does the mutant survive them?), run `./check <ID> quick` with RTMON_SRC pointing at the
copy and expect exit 1 with a VIOLATION line.  The copy is removed after each mutant.  Results: selftest/results.json.

usage: selftest/run.py [name-substring ...] [--no-tests] [--jobs N]
"""

from __future__ import annotations

import json
import os
import shutil
import subprocess
import sys
import tempfile
import time
from concurrent.futures import ThreadPoolExecutor
from pathlib import Path

HERE = Path(__file__).resolve().parent
ROOT = HERE.parent
sys.path.insert(0, str(HERE))
from mutants import MUTANTS  # noqa: E402

PY = "/venv/bin/python"


def run_one(m, with_tests=True, extra_props=()):
    name, prop, rel, old, new = m
    scratch = Path(tempfile.mkdtemp(prefix=f"rtmon-mut-{name}-"))
    res = {"mutant": name, "property": prop, "file": rel}
    try:
        shutil.copytree("/repo/src", scratch / "src")
        shutil.copytree("/repo/tests", scratch / "tests")
        for f in ("pyproject.toml", "tox.ini"):
            if Path("/repo", f).exists():
                shutil.copy(Path("/repo", f), scratch / f)
        target = scratch / "src" / "curies" / rel
        text = target.read_text()
        if text.count(old) != 1:
            res["error"] = f"pattern occurs {text.count(old)} times"
            return res
        target.write_text(text.replace(old, new))
        env = dict(os.environ, PYTHONPATH=str(scratch / "src"), PYTHONDONTWRITEBYTECODE="1")
        env.pop("CURIES_VERIF", None)
        p = subprocess.run([PY, "-c", "import curies, curies.mapping_service, curies.resolver_service"], env=env, cwd=str(scratch), capture_output=True, text=True)
        if p.returncode != 0:
            res["error"] = "mutant does not import: " + p.stderr[-300:]
            return res
        if with_tests:
            t0 = time.time()
            junit = scratch / "junit.xml"
            subprocess.run([PY, "-m", "pytest", "tests", "-q", "-p", "no:cacheprovider", "--timeout=600", f"--junitxml={junit}"],
                           env=env, cwd=str(scratch), capture_output=True, text=True)
            res["survives_repo_tests"] = stable_pass(junit)
            res["tests_wall_s"] = round(time.time() - t0, 1)
        out = scratch / "out"
        env2 = dict(os.environ, RTMON_SRC=str(scratch / "src"), RTMON_OUT_DIR=str(out))
        res["checks"] = {}
        for pid in (prop, *extra_props):
            t0 = time.time()
            c = subprocess.run([str(ROOT / "check"), pid, "quick"], env=env2, cwd=str(ROOT), capture_output=True, text=True)
            lines = [ln for ln in c.stdout.splitlines() if ln.startswith(("VIOLATION", "INCONCLUSIVE", "OK", "  "))]
            res["checks"][pid] = {"exit": c.returncode, "wall_s": round(time.time() - t0, 1), "lines": lines[:8]}
        res["caught"] = res["checks"][prop]["exit"] == 1
    finally:
        shutil.rmtree(scratch, ignore_errors=True)
    return res


def stable_pass(junit):
    import xml.etree.ElementTree as ET

    base = set(json.load(open("/root/.vp/BASELINE.json"))["stable_pass"])
    passed = set()
    try:
        for tc in ET.parse(junit).getroot().iter("testcase"):
            if not any(ch.tag in ("failure", "error", "skipped") for ch in tc):
                passed.add(f"{tc.get('classname')}::{tc.get('name')}")
    except Exception:  # noqa: BLE001
        return None
    return not (base - passed)


def main(argv):
    with_tests = "--no-tests" not in argv
    jobs = 4
    if "--jobs" in argv:
        jobs = int(argv[argv.index("--jobs") + 1])
    names = [a for a in argv if not a.startswith("--") and not a.isdigit()]
    todo = [m for m in MUTANTS if not names or any(n in m[0] for n in names)]
    with ThreadPoolExecutor(max_workers=jobs) as ex:
        results = list(ex.map(lambda m: run_one(m, with_tests), todo))
    for r in results:
        chk = r.get("checks", {}).get(r["property"], {})
        print(f"{'CAUGHT ' if r.get('caught') else 'MISSED '} {r['mutant']:55s} {r['property']}  survives_tests={r.get('survives_repo_tests')}  "
              f"{r.get('error', '')} {' | '.join(l.strip() for l in chk.get('lines', [])[-3:])[:160]}")
    if not names:
        (HERE / "results.json").write_text(json.dumps(results, indent=1))
    missed = [r["mutant"] for r in results if not r.get("caught")]
    print(f"{len(results) - len(missed)}/{len(results)} mutants caught")
    return 1 if missed else 0


if __name__ == "__main__":
    sys.exit(main(sys.argv[1:]))

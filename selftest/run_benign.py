#!/venv/bin/python
"""False-alarm self-test: every quick check must stay silent (exit 0) on behaviour-preserving refactorings.

selftest/benign/<name>/{patch.diff,notes.md} were written by independent sub-agents asked to restructure the
implementation substantially while preserving all public behaviour (and all twenty properties).
usage: selftest/run_benign.py [name-substring ...] [--jobs N]   -> selftest/benign_results.json
"""
import json
import subprocess
import sys
from pathlib import Path

HERE = Path(__file__).resolve().parent
names = [a for a in sys.argv[1:] if not a.startswith("--")]
jobs = int(sys.argv[sys.argv.index("--jobs") + 1]) if "--jobs" in sys.argv else 3
if "--jobs" in sys.argv:
    names = [n for n in names if n != sys.argv[sys.argv.index("--jobs") + 1]]
# (the three newest batches were evaluated last against nearly final checks: they come last, so that a run cut short by
#  the clock has re-evaluated the oldest results first; results are written after every refactoring)
NEW = ("feat", "near", "perf")
dirs = [d for d in sorted((HERE / "benign").iterdir(), key=lambda d: (d.name.startswith(NEW), d.name)) if not names or any(n in d.name for n in names)]
DONE = []
if "--resume" in sys.argv:
    # continue a run that was cut short: results already in benign_results.partial.json are kept, their refactorings skipped
    part = HERE / "benign_results.partial.json"
    if part.exists():
        DONE = [r for r in json.loads(part.read_text()) if r.get("alarms") == []]
        dirs = [d for d in dirs if d.name not in {r["refactoring"] for r in DONE}]


def one(d):
    p = subprocess.run(["/venv/bin/python", str(HERE.parent / "tools" / "try_benign.py"), str(d)], capture_output=True, text=True)
    try:
        r = json.loads(p.stdout)
    except Exception:  # noqa: BLE001
        r = {"error": (p.stdout + p.stderr)[-500:]}
    res = {"refactoring": d.name, "patch_applies": r.get("patch_applies"), "baseline_tests_not_passing": r.get("baseline_tests_not_passing"),
           "alarms": r.get("alarms"), "details": {k: v for k, v in r.get("checks", {}).items() if v["exit"] != 0}, "error": r.get("error")}
    print(d.name, "SILENT" if r.get("alarms") == [] else f"ALARM {r.get('alarms')} {r.get('error', '')}", flush=True)
    DONE.append(res)
    if not names:
        (HERE / "benign_results.partial.json").write_text(json.dumps(sorted(DONE, key=lambda x: x["refactoring"]), indent=1))
    return res


from concurrent.futures import ThreadPoolExecutor  # noqa: E402

with ThreadPoolExecutor(max_workers=jobs) as ex:
    list(ex.map(one, dirs))
results = sorted(DONE, key=lambda x: x["refactoring"])
if not names:
    (HERE / "benign_results.json").write_text(json.dumps(results, indent=1))
bad = [r["refactoring"] for r in results if r.get("alarms") != []]
print(f"{len(results) - len(bad)}/{len(results)} refactorings leave every check silent")
sys.exit(1 if bad else 0)

"""Runtime monitors for biopragmatics/curies (see /verif/DESIGN.md)."""

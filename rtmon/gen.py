"""Seeded generators: tiny hostile alphabets that force overlap, boundaries and clashes."""

from __future__ import annotations

import json

from . import probe, spec

DELIMS = [":", ":", ":", "/", "::", "_", "|"]
U_ATOMS = [
    "", "h", "http://x/", "http://x/a", "http://x/a_", "http://x/a/", "http://x/A_", "GO:",
    "http://é/", "u#", "GO", "http", "http://x/a_b", "urn:x:", "a", "a:", "http://y#", "https://x/", "http://x/ß", "http://x/ς",
    # two spellings of the same letter (NFC / NFD): different strings, nobody may normalise them into one
    "http://x/\u00e9_", "http://x/e\u0301_",
    # characters with a meaning to the machinery underneath (regular expressions, URL routing, CSV, Turtle)
    "http://x/(a)+", "http://x/[a]", "http://x/a.b*", "http://x/a%20b/", "http://x/a b/",
    # long prefixes that agree far beyond any plausible chunk / key-length limit and differ late
    "http://long.example.org/" + "seg/" * 16, "http://long.example.org/" + "seg/" * 16 + "a_", "http://long.example.org/" + "seg/" * 16 + "b_",
    "http://long.example.org/" + "seg/" * 64 + "a_", "http://long.example.org/" + "seg/" * 64 + "b_",
]
U_EXT = "_/#aA1é:b"
P_ATOMS = ["a", "A", "b", "ab", "a.b", "GO", "go", "http", "é", "", "B", "x y", "a_b", "urn", "GO:x", "a/b", "p|q", " a", "a ", "1", "http://x/", "ſ", "İ", "a\nb", "ß", "ς", "obo:go",
           "\u00e9x", "e\u0301x", "a+b", "a*", "(a)", "[a]", "a?b", "^a$", "p" * 70 + "a", "p" * 70 + "b"]
IDS = ["", "1", "0001", "a/b", "a#b", "a b", "é", "x", "a_1", "A_", "//x", "b", "_", "GO:1", "a\nb", "?q=1&r=2", "a%20b", " 1", "1 ", "x" * 300, "\t"]
# strings on which URL / IRI machinery underneath (urllib.parse, routing, normalisation) has opinions of its own
URL_HOSTILE = ["http://[2001:db8::1/x", "//[x", "http://a\uff0fb/c", "http://x/%41", "http://x/a%2Fb", "HTTP://x/", "http://x:80/", "http://u@x/",
               "cafe\u0301:1", "caf\u00e9:1", "\u212b:1", "\u2126", "a:\ufeffb"]
UNICODE = ["日本", "é́", "😀", "ß", "İ", "ǅ", "​", "퟿", "\U0010ffff"]
PATTERNS = [None, None, "^\\d+$", "^[A-Z]{2}\\d{4}$", "", "a|b", "\\\\"]


def uri_pool(rng, n):
    """n distinct URI prefixes forming nesting chains, siblings and case variants."""
    pool = []
    seen = set()

    def add(u):
        if u not in seen:
            seen.add(u)
            pool.append(u)

    tries = 0
    while len(pool) < n and tries < 200:
        tries += 1
        r = rng.random()
        if pool and r < 0.45:
            base = rng.choice(pool)
            add(base + "".join(rng.choice(U_EXT) for _ in range(rng.randint(1, 2))))
        elif pool and r < 0.55:
            base = rng.choice(pool)
            if base:
                add(base[:-1] + rng.choice(U_EXT))  # sibling differing in the last character
        elif pool and r < 0.6:
            add(rng.choice(pool).swapcase())
        else:
            add(rng.choice(U_ATOMS))
    rng.shuffle(pool)
    return pool


def prefix_pool(rng, n, delimiter, allow_delim=False):
    atoms = [p for p in P_ATOMS if allow_delim or delimiter not in p]
    pool = rng.sample(atoms, k=min(n, len(atoms)))
    while len(pool) < n:
        c = rng.choice(atoms) + rng.choice("xyzXYZ0") + str(len(pool))
        if c not in pool and (allow_delim or delimiter not in c):
            pool.append(c)
    return pool


def records(rng, delimiter=":", nmin=0, nmax=6, allow_delim=False, patterns=None, max_syn=2):
    """A clash-free list of spec.Rec (valid input for a strict Converter)."""
    if patterns is None:
        patterns = rng.random() < 0.25  # the pattern of a record is documentation: no query may depend on it
    n = rng.randint(nmin, nmax)
    ups = uri_pool(rng, n * (1 + max_syn) + 1)
    pps = prefix_pool(rng, n * (1 + max_syn) + 1, delimiter, allow_delim)
    out = []
    for i in range(n):
        if not ups or not pps:
            break
        p, u = pps.pop(), ups.pop()
        ps, us = [], []
        for _ in range(rng.randint(0, max_syn)):
            if len(pps) > n - i:
                ps.append(pps.pop())
        for _ in range(rng.randint(0, max_syn)):
            if len(ups) > n - i:
                us.append(ups.pop())
        if rng.random() < 0.12 and p.swapcase() != p and delimiter not in p.swapcase():
            ps.append(p.swapcase())  # the everyday synonym: a case variant of the record's own prefix (CHEBI / chebi) ...
            if rng.random() < 0.5 and u.swapcase() != u:
                us.append(u.swapcase())  # ... and of its own URI prefix
        if ps and rng.random() < 0.04:
            ps.append(ps[0])  # a record may repeat one of its own synonyms: one claim, not a clash
        if us and rng.random() < 0.04:
            us.append(us[-1])
        out.append(spec.Rec(p, u, tuple(ps), tuple(us), rng.choice(PATTERNS) if patterns else None))
    # the case variants added above may collide with another record's strings: drop them there
    seen_p, seen_u, final = set(), set(), []
    for r in out:
        psyn = tuple(x for i, x in enumerate(r.psyn) if x != r.prefix and (x not in seen_p or x in r.psyn[:i]) and not any(x in spec.all_p(o) for o in out if o is not r))
        usyn = tuple(x for i, x in enumerate(r.usyn) if x != r.uri_prefix and not any(x in spec.all_u(o) for o in out if o is not r))
        seen_p.update(spec.all_p(r))
        seen_u.update(spec.all_u(r))
        final.append(r._replace(psyn=psyn, usyn=usyn))
    return final


def large_records(rng, n, delimiter=":", synonyms=True):
    """n clash-free records whose URI prefixes form a deep random tree (for cases at a scale above any plausible
    fast-path threshold, batch size or slice limit); CURIE prefixes p0..pn with case-variant and dotted synonyms."""
    nodes = ["http://x/", "https://y.org/ns#", "urn:z:", "http://x/obo/"]
    want = n * 2 + 4
    while len(nodes) < want:
        base = rng.choice(nodes)
        nodes.append(base + "".join(rng.choice("abcAB01_/#-") for _ in range(rng.randint(1, 3))))
        if len(nodes) % 64 == 0:
            nodes = list(dict.fromkeys(nodes))
    nodes = list(dict.fromkeys(nodes))
    rng.shuffle(nodes)
    recs = []
    for i in range(n):
        if not nodes:
            break
        u = nodes.pop()
        usyn = tuple(nodes.pop() for _ in range(rng.choice([0, 0, 1, 2])) if synonyms and len(nodes) > n - i)
        psyn = ()
        if synonyms and i % 3 == 0:
            psyn = (f"P{i}",) if i % 2 else (f"p.{i}", f"P{i}")
        recs.append(spec.Rec(f"p{i}", u, psyn, usyn, None))
    return recs


def mk_record(api, r: spec.Rec):
    return api.Record(**json.loads(json.dumps(spec.rec_dict(r))))


def _fold_distinct(recs):
    """No two *different records* hold strings (CURIE side, URI side) that are equal up to letter case; a record may
    well list case variants of its own prefix (CHEBI / chebi), the everyday use of case-insensitive registration."""
    for side in (spec.all_p, spec.all_u):
        owner = {}
        for i, r in enumerate(recs):
            for x in side(r):
                if owner.setdefault(x.casefold(), i) != i:
                    return False
    return True


def loader_friendly(recs):
    """The same map said the way a priority map or a reverse prefix map can say it: no CURIE-prefix synonyms, no
    pattern, and the canonical URI prefix the strictly shortest of its record (other URI prefixes of that length go)."""
    out = []
    for r in recs:
        us = sorted(spec.all_u(r), key=len)
        out.append(spec.Rec(r.prefix, us[0], (), tuple(u for u in us[1:] if len(u) > len(us[0])), None))
    return out


UNIQUE_RECORD_PROPS = {"C02", "C06"}
ROUTES = ["ctor", "ctor", "incremental", "mixed", "grown-by-merge", "re-added-case-insensitively", "via-loader", "via-derivation"]


def mk_records_sharing_lists(api, order, rng):
    """Record objects made the way a user copies a template: `template.model_copy(update=...)` is a shallow copy, so
    records whose synonym lists are equal (usually empty) share the list object.  A converter of such records is a
    converter like any other for everything that derives a *new* converter from it."""
    out, templates = [], []
    for r in order:
        t = next((x for x, r0 in templates if r0.psyn == r.psyn and r0.usyn == r.usyn), None)
        if t is None or rng.random() < 0.3:
            x = mk_record(api, r)
        else:
            x = t.model_copy(update={"prefix": r.prefix, "uri_prefix": r.uri_prefix, "pattern": r.pattern})
            probe.S.counters["wl:records-sharing-synonym-lists"] += 1
        templates.append((x, r))
        out.append(x)
    return out


def build(api, recs, delimiter, rng, how=None, share_lists=False, rejections=True):
    """Build a real converter from plain records: constructor or incremental, in a random order.

    One build in four runs with the monitors switched off (monitors read public attributes such as `trie`, and an
    implementation that defers work until such an attribute is read would otherwise never be seen in its deferred state).
    """
    how = how or rng.choice(ROUTES)
    if how == "re-added-case-insensitively" and not _fold_distinct(recs):
        how = "ctor"
    if share_lists and how == "ctor" and rng.random() < 0.5:
        order = rng.sample(list(recs), k=len(recs))
        with probe.monitor_mode():
            c = api.Converter(mk_records_sharing_lists(api, order, rng), delimiter=delimiter)
        return c, "ctor+records-sharing-lists"
    # one converter in twelve gets its delimiter after construction (`converter.delimiter = ...`, the only way to give
    # the result of chain() or get_subconverter() another delimiter): every answer follows the attribute
    built_with = delimiter
    if rng.random() < 0.08:
        others = [x for x in DELIMS if x != delimiter and not any(x in p for r in recs for p in spec.all_p(r))]
        if others:
            built_with = rng.choice(others)
            probe.S.counters["wl:delimiter-assigned-after-construction"] += 1
    if rng.random() < 0.25:
        probe.S.counters["wl:built-unobserved"] += 1
        with probe.monitor_mode():
            c, how = _build(api, recs, built_with, rng, how)
    else:
        c, how = _build(api, recs, built_with, rng, how)
    if built_with != delimiter:
        try:
            c.delimiter = delimiter
            how += "+delimiter-assigned-later"
        except AttributeError:
            # an implementation whose delimiter cannot be assigned: the circumstance does not exist there
            probe.S.counters["wl:delimiter-not-assignable"] += 1
            with probe.monitor_mode():
                c, how = _build(api, recs, delimiter, rng, "ctor")
    c, how = _circumstance(api, c, delimiter, rng, how)
    if rng.random() < 0.25:
        touch_handed_out_views(c)
    if rejections and rng.random() < 0.3 and not any(x in sp_ for r in recs for sp_ in (*spec.all_p(r), *spec.all_u(r)) for x in ("zzghost", "zz.ghost")):
        rejected_registrations(api, c, rng)
    if probe.S.prop in QUERY_PROPS:
        # "for every converter": the converter the caller built through calls that all succeeded is the one they asked
        # for - every string of the intended map has the owner the map gives it, and nothing else has an owner.  (The
        # model-based monitors compare answers with `converter.records`; a registration that silently drops or moves
        # a string changes `records` consistently and would fool them.)
        probe.evaluated("built-converter-denotes-the-intended-map")
        want, have = _ownership(recs), _ownership(spec.snapshot(c))
        if want != have:
            diff = {side: {k: [want[side].get(k), have[side].get(k)] for k in set(want[side]) | set(have[side]) if want[side].get(k) != have[side].get(k)} for side in want}
            probe.violation([probe.S.prop], "built-converter-denotes-the-intended-map", f"registered-string-lost-or-moved-after-{how.split('+')[0].split('(')[0]}",
                            intended_records=[spec.rec_dict(r) for r in recs], records=[spec.rec_dict(r) for r in spec.snapshot(c)],
                            differences_string_to_intended_and_actual_owner=diff, delimiter=delimiter, built=how)
    if probe.S.prop in UNIQUE_RECORD_PROPS:
        # "its unique record": a converter grown from a clash-free map through the public API has one owner per string
        probe.evaluated("built-converter-has-one-owner-per-string")
        now = spec.snapshot(c)
        if not spec.is_unique(now):
            probe.violation([probe.S.prop], "built-converter-has-one-owner-per-string", f"string-claimed-by-two-records-after-{how}",
                            intended_records=[spec.rec_dict(r) for r in recs], records=[spec.rec_dict(r) for r in now], delimiter=delimiter)
    return c, how


QUERY_PROPS = {"C01", "C02", "C03", "C06", "C07", "C08"}


def _ownership(recs):
    return {
        "curie": {p: r.prefix for r in recs for p in spec.all_p(r)},
        "uri": {u: r.uri_prefix for r in recs for u in spec.all_u(r)},
    }


def touch_handed_out_views(c):
    """What a method or property *computes and hands out* is the caller's: the dictionaries of bimap / reverse_bimap,
    the sets of get_prefixes / get_uri_prefixes.  The caller edits them (adds an entry, drops one); the converter must
    not notice - asked afterwards through every query, compared with its records as always."""
    touched = 0
    for name in ("bimap", "reverse_bimap"):
        try:
            d = getattr(c, name)
        except Exception:  # noqa: BLE001
            continue
        if isinstance(d, dict):
            first = next(iter(d), None)
            d["zzview"] = "http://zz.view/"
            if first is not None:
                d.pop(first)
            touched += 1
    for syn in (False, True):
        for name in ("get_prefixes", "get_uri_prefixes"):
            try:
                st = getattr(c, name)(include_synonyms=syn)
            except Exception:  # noqa: BLE001
                continue
            if isinstance(st, set):
                st.add("zzview")
                if len(st) > 1:
                    st.discard(sorted(st)[0])
                touched += 1
    probe.S.counters["wl:handed-out-views-edited-by-the-caller"] += touched


_SUBCLASS = {}
ORIG_PREFIX, ORIG_URI = "zzorig", "http://zz.orig/"  # registered on the original of a copied converter after the copy was taken
GHOST_PREFIXES = ["zzghost", "zzghost2"]  # strings of registrations that must be rejected (rejected_registrations)
GHOST_URIS = ["http://zz.ghost/", "http://zz.ghost2/"]
SPECIAL_PREFIXES = [ORIG_PREFIX, *GHOST_PREFIXES, "zzview"]  # no converter of any workload may ever know these
SPECIAL_URIS = [ORIG_URI, *GHOST_URIS, "http://zz.view/"]


def rejected_registrations(api, c, rng):
    """Attempt registrations that correct code must reject with ValueError and that must leave nothing behind: their
    fresh strings (GHOST_*) come before the clashing one in every field order, and a merging record that bridges two
    existing records.  Whatever the attempt leaves in a lookup structure shows when the ghost strings are asked."""
    recs = spec.snapshot(c)
    if not recs:
        return 0
    n = 0
    a = rng.choice(recs)
    b = rng.choice([r for r in recs if r is not a] or [a])
    g1, g2 = GHOST_PREFIXES
    u1, u2 = GHOST_URIS
    attempts = [
        lambda: c.add_prefix(g1, u1, [g2], [rng.choice(spec.all_u(a))]),  # clash in the last field
        lambda: c.add_prefix(g1, u1, [g2, rng.choice(spec.all_p(a))], [u2]),  # clash among the CURIE synonyms
        lambda: c.add_prefix(g1, rng.choice(spec.all_u(a)), [g2], [u1]),  # clash on the canonical URI prefix
        lambda: c.add_record(api.Record(prefix=g1, uri_prefix=u1, prefix_synonyms=[g2], uri_prefix_synonyms=[u2, rng.choice(spec.all_u(b))])),
    ]
    if b is not a:
        # a merging record that matches two records: rejected whatever `merge` says
        attempts.append(lambda: c.add_record(api.Record(prefix=g1, uri_prefix=rng.choice(spec.all_u(a)), prefix_synonyms=[rng.choice(spec.all_p(b))], uri_prefix_synonyms=[u1]), merge=True))
        attempts.append(lambda: c.add_prefix(rng.choice(spec.all_p(a)), u1, [g1], [rng.choice(spec.all_u(b))], merge=True))
    for f in rng.sample(attempts, k=rng.randint(1, 2)):
        try:
            f()
            probe.S.counters["wl:registration-that-must-be-rejected-was-accepted"] += 1
        except ValueError:
            n += 1
    probe.S.counters["wl:rejected-registrations"] += n
    return n


def plain_subclass(api):
    """A user subclass of Converter that overrides nothing."""
    if api.Converter not in _SUBCLASS:
        _SUBCLASS[api.Converter] = type("UserConverter", (api.Converter,), {"__doc__": "a user's subclass overriding nothing"})
    return _SUBCLASS[api.Converter]


_HOOKED = {}


def hooked_subclass(api):
    """A user subclass overriding only the documented hook `standardize_identifier`, the way the documentation suggests:
    it removes a redundant prefix from the identifier and refuses (returns None for) identifiers ending in '!'."""
    if api.Converter not in _HOOKED:
        def standardize_identifier(self, standard_prefix, identifier):
            red = standard_prefix + self.delimiter
            if identifier.startswith(red):
                identifier = identifier[len(red):]
            if identifier.endswith("!"):
                return None
            return identifier

        direct = type("HookedConverter", (api.Converter,), {"standardize_identifier": standardize_identifier})
        # the hook may also be inherited: from a customised parent class, or from a mixin listed before Converter
        grandchild = type("ProjectConverter", (direct,), {"__doc__": "inherits the customised hook from its parent"})
        mixin = type("NumericMixin", (), {"standardize_identifier": standardize_identifier})
        mixed = type("MixedConverter", (mixin, api.Converter), {})
        _HOOKED[api.Converter] = [direct, grandchild, mixed]
    _HOOKED["n"] = _HOOKED.get("n", 0) + 1
    return _HOOKED[api.Converter][_HOOKED["n"] % 3]


class Weird(str):
    """A str subclass whose str() is not its text (like a member of `class P(str, Enum)`): its characters are what
    they are.  Used only where the library is asked about the characters of a string (C20)."""

    __slots__ = ()

    def __str__(self):
        return "Weird.member"

    def __repr__(self):
        return "<Weird: " + str.__repr__(self) + ">"


class Str(str):
    """A str subclass (like a str-valued enum member or a token type of the user's): still a string."""

    __slots__ = ()


def own_constructor_subclass(api):
    """A user subclass whose constructor has a meaning of its own (it takes a registry dictionary, not records) and
    that overrides nothing else: still a converter like any other for everything that is done *with* it."""
    if ("own-ctor", api.Converter) not in _SUBCLASS:
        def __init__(self, registry, *, delimiter=":"):
            recs = [api.Record(prefix=k, uri_prefix=v["uri_prefix"], prefix_synonyms=list(v.get("psyn", ())),
                               uri_prefix_synonyms=list(v.get("usyn", ())), pattern=v.get("pattern")) for k, v in registry.items()]
            api.Converter.__init__(self, recs, delimiter=delimiter)

        _SUBCLASS[("own-ctor", api.Converter)] = type("RegistryConverter", (api.Converter,), {"__init__": __init__})
    return _SUBCLASS[("own-ctor", api.Converter)]


def _shallow_copy_probe(api, original, d):
    """copy.copy(original); the original grows; then both are asked (monitored: each must answer from its own records,
    in every query family and without raising in the default mode), about the new strings and about old ones."""
    import copy

    twin = copy.copy(original)
    try:
        original.add_prefix(ORIG_PREFIX, ORIG_URI)
    except ValueError:
        return
    old = [r for r in spec.snapshot(twin) if r.prefix != ORIG_PREFIX][:2]
    curies = [ORIG_PREFIX + d + "1"] + [p + d + "1" for r in old for p in spec.all_p(r)[:2]]
    uris = [ORIG_URI + "1"] + [u + "1" for r in old for u in spec.all_u(r)[:2]]
    S = probe.S
    S.in_monitor -= 1  # the questions are monitored calls (the caller holds monitor mode)
    try:
        for conv in (twin, original):
            for q in curies + uris:
                for name in ("compress", "expand", "standardize_curie", "standardize_uri", "compress_or_standardize", "expand_or_standardize"):
                    probe.outcome_of(getattr(conv, name), q)
                    probe.outcome_of(getattr(conv, name), q, passthrough=True)
                probe.outcome_of(conv.parse_uri, q, return_none=True)
                probe.outcome_of(conv.expand_all, q)
                probe.outcome_of(conv.is_uri, q)
                probe.outcome_of(conv.is_curie, q)
            probe.outcome_of(conv.standardize_prefix, ORIG_PREFIX)
            probe.outcome_of(conv.expand_pair, ORIG_PREFIX, "1")
    finally:
        S.in_monitor += 1


def _circumstance(api, c, delimiter, rng, how):
    """One converter in four is not used as built: it is a deep copy, went through pickle, or is an instance of a user
    subclass (overriding nothing) rebuilt from deep copies of its records.  All of these are converters like any other."""
    r = rng.random()
    if r >= 0.28:
        return c, how
    import copy
    import pickle

    with probe.monitor_mode():
        try:
            if r < 0.06:
                c2, tag = copy.deepcopy(c), "deep-copied"
            elif r < 0.09:
                # copy.copy shares whatever it shares with the original, so a shallow copy whose original grows does
                # not keep the content the driver asked for: the experiment is made on a sacrificial pair (a deep copy
                # of c and its shallow copy) and c itself is used as built
                _shallow_copy_probe(api, copy.deepcopy(c), delimiter)
                probe.S.counters["wl:circumstance:shallow-copy-probed"] += 1
                return c, how
            elif r < 0.18:
                c2, tag = pickle.loads(pickle.dumps(c)), "pickled"
            elif r < 0.23:
                c2, tag = plain_subclass(api)([copy.deepcopy(x) for x in c.records], delimiter=delimiter), "user-subclass"
            else:
                snap = spec.snapshot(c)
                if len({x.prefix for x in snap}) != len(snap):
                    return c, how
                reg = {x.prefix: {"uri_prefix": x.uri_prefix, "psyn": x.psyn, "usyn": x.usyn, "pattern": x.pattern} for x in snap}
                c2, tag = own_constructor_subclass(api)(reg, delimiter=delimiter), "user-subclass-with-its-own-constructor"
        except RecursionError:  # the trie nests one node per character: very long URI prefixes cannot be copied today
            probe.S.counters["wl:circumstance:copy-hit-recursion-limit"] += 1
            return c, how
        except (TypeError, AttributeError, pickle.PicklingError, copy.Error) as e:
            # an implementation that does not support this kind of copy at all: the circumstance does not exist there
            probe.S.counters[f"wl:circumstance:not-supported:{type(e).__name__}"] += 1
            return c, how
        if not tag.startswith("user-subclass") and delimiter not in ORIG_PREFIX:
            # the original lives on and grows: nothing of that may show in the copy (asked through gen.query_strings)
            try:
                c.add_prefix(ORIG_PREFIX, ORIG_URI)
                probe.S.counters["wl:circumstance:original-extended-after-the-copy"] += 1
            except ValueError:
                pass
    probe.S.counters[f"wl:circumstance:{tag}"] += 1
    return c2, how + "+" + tag


def _build(api, recs, delimiter, rng, how):
    order = list(recs)
    rng.shuffle(order)
    if how == "ctor":
        made = [mk_record(api, r) for r in order]
        shape = rng.random()  # "records: Iterable[Record]": a list, a tuple, or a one-shot iterable
        if shape < 0.15:
            return api.Converter((x for x in made), delimiter=delimiter), how + "(generator)"
        if shape < 0.25:
            return api.Converter(tuple(made), delimiter=delimiter), how + "(tuple)"
        return api.Converter(made, delimiter=delimiter), how
    if how == "via-derivation":
        # the converter is the PRODUCT of another public operation (twentieth round of seeded changes: damage done in one
        # operation that shows only in another): a sub-converter of a larger one, a chain of a bare prefix map and the
        # records that bring the synonyms, or the result of rewiring / remapping a pre-image whose canonical URI prefix
        # (CURIE prefix) was one of the intended record's synonyms.  The product denotes exactly `recs`.
        import curies

        kinds = ["subconverter", "chain"]
        if any(r.usyn for r in order):
            kinds += ["rewire", "remap-uri"]
        if any(r.psyn for r in order):
            kinds += ["remap-curie"]
        kind = rng.choice(kinds)
        if kind == "subconverter":
            extra = [api.Record(prefix="zzextra", uri_prefix="http://zz.extra/", prefix_synonyms=["zzextra2"])]
            parent = api.Converter([mk_record(api, r) for r in order] + extra, delimiter=delimiter)
            c = parent.get_subconverter([r.prefix for r in order] if rng.random() < 0.5 else {rng.choice(spec.all_p(r)) for r in order})
        elif kind == "chain":
            bare = api.Converter([api.Record(prefix=r.prefix, uri_prefix=r.uri_prefix, pattern=r.pattern) for r in order], delimiter=delimiter)
            rest = api.Converter([mk_record(api, r) for r in order if r.psyn or r.usyn], delimiter=delimiter)
            c = curies.chain([bare, rest])
        elif kind in ("rewire", "remap-uri"):
            r0 = rng.choice([r for r in order if r.usyn])
            pre = [r if r is not r0 else r0._replace(uri_prefix=r0.usyn[0], usyn=tuple(x for x in r0.usyn if x != r0.usyn[0])) for r in order]
            c0 = api.Converter([mk_record(api, r) for r in pre], delimiter=delimiter)
            if kind == "rewire":
                c = curies.rewire(c0, {rng.choice(spec.all_p(r0)): r0.uri_prefix})
            else:
                c = curies.remap_uri_prefixes(c0, {rng.choice(r0.usyn): r0.uri_prefix})
        else:
            r0 = rng.choice([r for r in order if r.psyn])
            pre = [r if r is not r0 else r0._replace(prefix=r0.psyn[0], psyn=tuple(x for x in r0.psyn if x != r0.psyn[0])) for r in order]
            c0 = api.Converter([mk_record(api, r) for r in pre], delimiter=delimiter)
            c = curies.remap_curie_prefixes(c0, {rng.choice(r0.psyn): r0.prefix})
        if c.delimiter != delimiter:
            try:
                c.delimiter = delimiter  # (derivations return the default delimiter; assigning it is the way to change it)
            except AttributeError:
                # an implementation whose delimiter cannot be assigned (a read-only property): the product cannot be given
                # the delimiter the case asks for - the circumstance does not exist there
                probe.S.counters["wl:delimiter-not-assignable"] += 1
                return _build(api, recs, delimiter, rng, "ctor")
        return c, f"{how}({kind})"
    if how == "via-loader":
        # the map arrives through one of the documented loaders, its entries in a shuffled order (entries of one record
        # need not be adjacent): an extended prefix map always; a priority map or a reverse prefix map when the records
        # can be said that way (no CURIE-prefix synonyms, no pattern; for the reverse map the canonical URI prefix is the
        # strictly shortest of its record).  Seed C01-S: a loader that groups adjacent entries only.
        plain = all(not r.psyn and not r.pattern for r in order)
        shortest = plain and all(all(len(r.uri_prefix) < len(u) for u in r.usyn) for r in order)
        kinds = ["extended"] + (["priority"] if plain else []) + (["reverse", "reverse"] if shortest else [])
        kind = rng.choice(kinds)
        if kind == "extended":
            c = api.Converter.from_extended_prefix_map([json.loads(json.dumps(spec.rec_dict(r))) for r in order], delimiter=delimiter)
        elif kind == "priority":
            c = api.Converter.from_priority_prefix_map({r.prefix: [r.uri_prefix, *r.usyn] for r in order}, delimiter=delimiter)
        else:
            items = [(u, r.prefix) for r in order for u in spec.all_u(r)]
            rng.shuffle(items)
            c = api.Converter.from_reverse_prefix_map(dict(items), delimiter=delimiter)
        return c, f"{how}({kind})"
    if how == "re-added-case-insensitively":
        # every record is registered, then registered again through a case-insensitive merge (in pieces or whole):
        # no two strings of the map differ only by letter case, so every piece must find its own record and nothing else
        c = api.Converter([mk_record(api, r) for r in order if rng.random() < 0.6], delimiter=delimiter)
        for r in rng.sample(order, k=len(order)):
            style = rng.random()
            if style < 0.4:
                if r.pattern:
                    c.add_record(api.Record(prefix=r.prefix, uri_prefix=r.uri_prefix, pattern=r.pattern), case_sensitive=False, merge=True)
                c.add_prefix(r.prefix, r.uri_prefix, list(r.psyn), list(r.usyn), case_sensitive=False, merge=True)
            elif style < 0.7:
                c.add_record(mk_record(api, r), case_sensitive=False, merge=True)
                c.add_record(api.Record(prefix=r.prefix, uri_prefix=r.uri_prefix), case_sensitive=False, merge=True)
            else:
                c.add_record(api.Record(prefix=r.prefix, uri_prefix=r.uri_prefix, pattern=r.pattern), case_sensitive=False, merge=True)
                for x in r.psyn:
                    c.add_prefix(x, r.uri_prefix, case_sensitive=False, merge=True)
                for x in r.usyn:
                    c.add_prefix(r.prefix, x, case_sensitive=False, merge=True)
        return c, how
    if how == "grown-by-merge":
        # records that start as bare (prefix, URI prefix) pairs - synonym fields never set - and acquire
        # their synonyms later through merges: the same content as `recs`, but objects with a past
        if any(r.pattern for r in order):
            c = api.Converter([api.Record(prefix=r.prefix, uri_prefix=r.uri_prefix, pattern=r.pattern) for r in order], delimiter=delimiter)
        else:
            c = api.Converter.from_prefix_map({r.prefix: r.uri_prefix for r in order}, delimiter=delimiter)
        for r in rng.sample(order, k=len(order)):
            if r.psyn or r.usyn:
                style = rng.random()
                if style < 0.35:
                    c.add_prefix(r.prefix, r.uri_prefix, list(r.psyn), list(r.usyn), merge=True)
                elif style < 0.7:
                    # the merged-in records have their own canonical values: a synonym as prefix, a URI synonym as URI prefix
                    ps, us = list(r.psyn), list(r.usyn)
                    while ps and us:
                        c.add_record(api.Record(prefix=ps.pop(), uri_prefix=us.pop(), prefix_synonyms=[r.prefix]), merge=True)
                    for x in ps:
                        c.add_record(api.Record(prefix=x, uri_prefix=r.uri_prefix), merge=True)
                    for x in us:
                        c.add_record(api.Record(prefix=r.prefix, uri_prefix=x), merge=True)
                else:
                    for x in r.psyn:
                        c.add_record(api.Record(prefix=x, uri_prefix=r.uri_prefix), merge=True)
                    for x in r.usyn:
                        c.add_record(api.Record(prefix=r.prefix, uri_prefix=x), merge=True)
        return c, how
    k = 0 if how == "incremental" else rng.randint(0, len(order))
    c = api.Converter([mk_record(api, r) for r in order[:k]], delimiter=delimiter)
    for r in order[k:]:
        c.add_record(mk_record(api, r))
    return c, how


def overlap_shape(recs):
    """Abstract shape of the URI-prefix overlap forest (for case keys): sorted nesting depths."""
    us = [(u, i) for i, r in enumerate(recs) for u in spec.all_u(r)]
    depths = []
    cross = 0
    for u, i in us:
        anc = [(v, j) for v, j in us if v != u and u.startswith(v)]
        depths.append(len(anc))
        cross += sum(1 for v, j in anc if j != i)
    return f"n{len(recs)}u{len(us)}d{max(depths, default=0)}x{min(cross, 9)}e{int(any(u == '' for u, _ in us))}"


# Value classes that the seeded changes of rounds 5-18 turned on, collected in one place so that the workloads with small
# private pools (C09-C13) can season them: each string is a legitimate CURIE prefix / URI prefix ("arbitrary strings").
HOSTILE_P = ["", " ", "a b", "\ta", " a", "a ", "a\n", "é", "e\u0301", "\u212b", "\u2126", "ß", "SS", "ss", "ſ", "İ", "i\u0307", "0", "00", "None", "nan",
             "null", "False", "[x", "x]", "[", "#", "#x", "@id", "@x", "_:", "_", "a,b", "a\\b", 'a"b', "a'b", "\ufeffa", "%41", "A", "a" * 70,
             "a.b", "a-b", "3dmet", "a|b", "a.", ".a", "*", "a+", "(a)", "a?", "^a", "a$", "\u1100\u1161", "😀", "a/b", "a_b"]
HOSTILE_U = ["", " ", "http://t/n/", "https://t/n/", "HTTP://T/n/", "http://T/n/", "http://t/n", "http://t/n/#", "http://t/N/", "u/\u0301", "ue\u0301/", "u\u00e9/",
             "http://[", "http://[x]/", "urn:x:", "@", "@id", "?", "#", "/", "//", "://", "http://x/%41", "http://x/A", "http://x/a%20b/", "a,b/", "\\\\srv\\share\\",
             "http://x/ ", " http://x/", "http://x/\n", "\ufeffhttp://x/", "http://x/?q=", "http://x/#", "http://x/a_", "http://x/a_b_", "file:///", "x" * 90 + "/",
             "http://\u212b/", "http://x/\u1100\u1161/", "0", "None"]


def hostile(rng, k=2, uri=False, exclude=()):
    """k strings from HOSTILE_U / HOSTILE_P that do not contain any of `exclude` (e.g. the converter's delimiter)."""
    pool = [x for x in (HOSTILE_U if uri else HOSTILE_P) if not any(e and e in x for e in exclude)]
    return rng.sample(pool, k=min(k, len(pool)))


def twins(s, uri=False):
    """Strings that are NOT s but that a lenient reader might take for s: another letter case, blanks at the edges, the
    other Unicode normalisation form, a byte order mark; for URIs the other of http / https and a trailing '/' or '#'
    more or less.  To the library they are different strings - unknown unless registered as such, and registrable next
    to s in another record (the thirteenth / fourteenth rounds of seeded changes: well-meant normalisations)."""
    import unicodedata

    out = [s.swapcase(), s.lower(), s.upper(), s.casefold(), " " + s, s + " ", s + "\n", "\t" + s, "\ufeff" + s,
           unicodedata.normalize("NFC", s), unicodedata.normalize("NFD", s)]
    if uri:
        if s.startswith("http://"):
            out.append("https://" + s[7:])
        elif s.startswith("https://"):
            out.append("http://" + s[8:])
        if s.endswith(("/", "#")):
            out.append(s[:-1])
        else:
            out += [s + "/", s + "#"]
        if "://" in s:
            # scheme and host in another letter case, the path left alone (RFC 3986 6.2.2.1 calls these equivalent)
            scheme, rest = s.split("://", 1)
            host, slash, path = rest.partition("/")
            out += [scheme.upper() + "://" + rest, scheme + "://" + host.upper() + slash + path, scheme + "://" + host.capitalize() + slash + path]
    return [x for x in dict.fromkeys(out) if x != s]


def query_strings(recs, d, rng, extra=()):
    allu = [u for r in recs for u in spec.all_u(r)]
    allp = [p for r in recs for p in spec.all_p(r)]
    qs = {"", "zzz", d, "a" + d, d + "a", rng.choice(UNICODE), d + d}
    for p in SPECIAL_PREFIXES:
        qs |= {p, p + d + "1"}
    for u in SPECIAL_URIS:
        qs |= {u + "1", u}
    qs |= set(URL_HOSTILE)
    for u in allu:
        qs |= {u, u[:-1], u + "1", u + rng.choice(IDS), u + rng.choice(UNICODE)}
        if u:
            # the same URI prefix with one character percent-encoded, or spelt in the other Unicode normalisation form:
            # different strings, recognised only if registered as such
            i = rng.randrange(len(u))
            qs.add(u[:i] + "%%%02X" % (ord(u[i]) & 0xFF) + u[i + 1:] + "1")
            import unicodedata

            for form in ("NFC", "NFD"):
                v = unicodedata.normalize(form, u)
                if v != u:
                    qs.add(v + "1")
        qs |= {u + ch for ch in "_/aA:"}
        if u:
            qs.add(u[:-1] + rng.choice(U_EXT))
            qs.add(u.swapcase())
    for p in allp + ["nope", ""]:
        for i in rng.sample(IDS, k=4) + [d, "x" + d + "y"]:
            qs.add(p + d + i)
        qs.add(p)
        qs.add(p.swapcase() + d + "1")
    for u in allu[:3]:
        for p in allp[:2]:
            qs.add(p + d + u)  # CURIE whose identifier is a registered URI prefix
            qs.add(u + p + d + "1")  # URI whose identifier is itself a CURIE of the map ("…/chebi/CHEBI:1234")
            qs.add(p + d + p + d + "1")  # CURIE whose identifier repeats its prefix
    qs.update(extra)
    out = sorted(qs)
    # one string in twelve is an instance of a str subclass: still a string, must be answered like the plain one
    return [Str(q) if rng.random() < 0.08 else q for q in out]

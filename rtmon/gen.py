"""Seeded generators: tiny hostile alphabets that force overlap, boundaries and clashes."""

from __future__ import annotations

import json

from . import probe, spec

DELIMS = [":", ":", ":", "/", "::", "_", "|"]
U_ATOMS = [
    "", "h", "http://x/", "http://x/a", "http://x/a_", "http://x/a/", "http://x/A_", "GO:",
    "http://é/", "u#", "GO", "http", "http://x/a_b", "urn:x:", "a", "a:", "http://y#", "https://x/", "http://x/ß", "http://x/ς",
]
U_EXT = "_/#aA1é:b"
P_ATOMS = ["a", "A", "b", "ab", "a.b", "GO", "go", "http", "é", "", "B", "x y", "a_b", "urn", "GO:x", "a/b", "p|q", " a", "a ", "1", "http://x/", "ſ", "İ", "a\nb", "ß", "ς", "obo:go"]
IDS = ["", "1", "0001", "a/b", "a#b", "a b", "é", "x", "a_1", "A_", "//x", "b", "_", "GO:1", "a\nb", "?q=1&r=2", "a%20b", " 1", "1 ", "x" * 300, "\t"]
UNICODE = ["日本", "é́", "😀", "ß", "İ", "ǅ", "​", "퟿", "\U0010ffff"]
PATTERNS = [None, None, "^\\d+$", "^[A-Z]{2}\\d{4}$", "", "a|b", "\\\\"]


def uri_pool(rng, n):
    """n distinct URI prefixes forming nesting chains, siblings and case variants."""
    pool = []
    seen = set()

    def add(u):
        if u not in seen:
            seen.add(u)
            pool.append(u)

    tries = 0
    while len(pool) < n and tries < 200:
        tries += 1
        r = rng.random()
        if pool and r < 0.45:
            base = rng.choice(pool)
            add(base + "".join(rng.choice(U_EXT) for _ in range(rng.randint(1, 2))))
        elif pool and r < 0.55:
            base = rng.choice(pool)
            if base:
                add(base[:-1] + rng.choice(U_EXT))  # sibling differing in the last character
        elif pool and r < 0.6:
            add(rng.choice(pool).swapcase())
        else:
            add(rng.choice(U_ATOMS))
    rng.shuffle(pool)
    return pool


def prefix_pool(rng, n, delimiter, allow_delim=False):
    atoms = [p for p in P_ATOMS if allow_delim or delimiter not in p]
    pool = rng.sample(atoms, k=min(n, len(atoms)))
    while len(pool) < n:
        c = rng.choice(atoms) + rng.choice("xyzXYZ0") + str(len(pool))
        if c not in pool and (allow_delim or delimiter not in c):
            pool.append(c)
    return pool


def records(rng, delimiter=":", nmin=0, nmax=6, allow_delim=False, patterns=None, max_syn=2):
    """A clash-free list of spec.Rec (valid input for a strict Converter)."""
    if patterns is None:
        patterns = rng.random() < 0.25  # the pattern of a record is documentation: no query may depend on it
    n = rng.randint(nmin, nmax)
    ups = uri_pool(rng, n * (1 + max_syn) + 1)
    pps = prefix_pool(rng, n * (1 + max_syn) + 1, delimiter, allow_delim)
    out = []
    for i in range(n):
        if not ups or not pps:
            break
        p, u = pps.pop(), ups.pop()
        ps, us = [], []
        for _ in range(rng.randint(0, max_syn)):
            if len(pps) > n - i:
                ps.append(pps.pop())
        for _ in range(rng.randint(0, max_syn)):
            if len(ups) > n - i:
                us.append(ups.pop())
        if ps and rng.random() < 0.04:
            ps.append(ps[0])  # a record may repeat one of its own synonyms: one claim, not a clash
        if us and rng.random() < 0.04:
            us.append(us[-1])
        out.append(spec.Rec(p, u, tuple(ps), tuple(us), rng.choice(PATTERNS) if patterns else None))
    return out


def mk_record(api, r: spec.Rec):
    return api.Record(**json.loads(json.dumps(spec.rec_dict(r))))


def _fold_distinct(recs):
    """No two strings of `recs` (CURIE side, URI side) are equal up to letter case unless they are the same string."""
    for side in (spec.all_p, spec.all_u):
        strings = {x for r in recs for x in side(r)}
        if len({x.casefold() for x in strings}) != len(strings):
            return False
    return True


UNIQUE_RECORD_PROPS = {"C02", "C06"}
ROUTES = ["ctor", "ctor", "incremental", "mixed", "grown-by-merge", "re-added-case-insensitively"]


def build(api, recs, delimiter, rng, how=None):
    """Build a real converter from plain records: constructor or incremental, in a random order.

    One build in four runs with the monitors switched off (monitors read public attributes such as `trie`, and an
    implementation that defers work until such an attribute is read would otherwise never be seen in its deferred state).
    """
    how = how or rng.choice(ROUTES)
    if how == "re-added-case-insensitively" and not _fold_distinct(recs):
        how = "ctor"
    if rng.random() < 0.25:
        probe.S.counters["wl:built-unobserved"] += 1
        with probe.monitor_mode():
            c, how = _build(api, recs, delimiter, rng, how)
    else:
        c, how = _build(api, recs, delimiter, rng, how)
    if probe.S.prop in UNIQUE_RECORD_PROPS:
        # "its unique record": a converter grown from a clash-free map through the public API has one owner per string
        probe.evaluated("built-converter-has-one-owner-per-string")
        now = spec.snapshot(c)
        if not spec.is_unique(now):
            probe.violation([probe.S.prop], "built-converter-has-one-owner-per-string", f"string-claimed-by-two-records-after-{how}",
                            intended_records=[spec.rec_dict(r) for r in recs], records=[spec.rec_dict(r) for r in now], delimiter=delimiter)
    return c, how


def _build(api, recs, delimiter, rng, how):
    order = list(recs)
    rng.shuffle(order)
    if how == "ctor":
        return api.Converter([mk_record(api, r) for r in order], delimiter=delimiter), how
    if how == "re-added-case-insensitively":
        # every record is registered, then registered again through a case-insensitive merge (in pieces or whole):
        # no two strings of the map differ only by letter case, so every piece must find its own record and nothing else
        c = api.Converter([mk_record(api, r) for r in order if rng.random() < 0.6], delimiter=delimiter)
        for r in rng.sample(order, k=len(order)):
            style = rng.random()
            if style < 0.4:
                if r.pattern:
                    c.add_record(api.Record(prefix=r.prefix, uri_prefix=r.uri_prefix, pattern=r.pattern), case_sensitive=False, merge=True)
                c.add_prefix(r.prefix, r.uri_prefix, list(r.psyn), list(r.usyn), case_sensitive=False, merge=True)
            elif style < 0.7:
                c.add_record(mk_record(api, r), case_sensitive=False, merge=True)
                c.add_record(api.Record(prefix=r.prefix, uri_prefix=r.uri_prefix), case_sensitive=False, merge=True)
            else:
                c.add_record(api.Record(prefix=r.prefix, uri_prefix=r.uri_prefix, pattern=r.pattern), case_sensitive=False, merge=True)
                for x in r.psyn:
                    c.add_prefix(x, r.uri_prefix, case_sensitive=False, merge=True)
                for x in r.usyn:
                    c.add_prefix(r.prefix, x, case_sensitive=False, merge=True)
        return c, how
    if how == "grown-by-merge":
        # records that start as bare (prefix, URI prefix) pairs - synonym fields never set - and acquire
        # their synonyms later through merges: the same content as `recs`, but objects with a past
        if any(r.pattern for r in order):
            c = api.Converter([api.Record(prefix=r.prefix, uri_prefix=r.uri_prefix, pattern=r.pattern) for r in order], delimiter=delimiter)
        else:
            c = api.Converter.from_prefix_map({r.prefix: r.uri_prefix for r in order}, delimiter=delimiter)
        for r in rng.sample(order, k=len(order)):
            if r.psyn or r.usyn:
                style = rng.random()
                if style < 0.35:
                    c.add_prefix(r.prefix, r.uri_prefix, list(r.psyn), list(r.usyn), merge=True)
                elif style < 0.7:
                    # the merged-in records have their own canonical values: a synonym as prefix, a URI synonym as URI prefix
                    ps, us = list(r.psyn), list(r.usyn)
                    while ps and us:
                        c.add_record(api.Record(prefix=ps.pop(), uri_prefix=us.pop(), prefix_synonyms=[r.prefix]), merge=True)
                    for x in ps:
                        c.add_record(api.Record(prefix=x, uri_prefix=r.uri_prefix), merge=True)
                    for x in us:
                        c.add_record(api.Record(prefix=r.prefix, uri_prefix=x), merge=True)
                else:
                    for x in r.psyn:
                        c.add_record(api.Record(prefix=x, uri_prefix=r.uri_prefix), merge=True)
                    for x in r.usyn:
                        c.add_record(api.Record(prefix=r.prefix, uri_prefix=x), merge=True)
        return c, how
    k = 0 if how == "incremental" else rng.randint(0, len(order))
    c = api.Converter([mk_record(api, r) for r in order[:k]], delimiter=delimiter)
    for r in order[k:]:
        c.add_record(mk_record(api, r))
    return c, how


def overlap_shape(recs):
    """Abstract shape of the URI-prefix overlap forest (for case keys): sorted nesting depths."""
    us = [(u, i) for i, r in enumerate(recs) for u in spec.all_u(r)]
    depths = []
    cross = 0
    for u, i in us:
        anc = [(v, j) for v, j in us if v != u and u.startswith(v)]
        depths.append(len(anc))
        cross += sum(1 for v, j in anc if j != i)
    return f"n{len(recs)}u{len(us)}d{max(depths, default=0)}x{min(cross, 9)}e{int(any(u == '' for u, _ in us))}"


def query_strings(recs, d, rng, extra=()):
    allu = [u for r in recs for u in spec.all_u(r)]
    allp = [p for r in recs for p in spec.all_p(r)]
    qs = {"", "zzz", d, "a" + d, d + "a", rng.choice(UNICODE), d + d}
    for u in allu:
        qs |= {u, u[:-1], u + "1", u + rng.choice(IDS), u + rng.choice(UNICODE)}
        qs |= {u + ch for ch in "_/aA:"}
        if u:
            qs.add(u[:-1] + rng.choice(U_EXT))
            qs.add(u.swapcase())
    for p in allp + ["nope", ""]:
        for i in rng.sample(IDS, k=4) + [d, "x" + d + "y"]:
            qs.add(p + d + i)
        qs.add(p)
        qs.add(p.swapcase() + d + "1")
    for u in allu[:3]:
        for p in allp[:2]:
            qs.add(p + d + u)  # CURIE whose identifier is a registered URI prefix
    qs.update(extra)
    return sorted(qs)

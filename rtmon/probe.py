"""Instrumentation layer: transparent wrappers around the real callables.

A wrapper (1) lets each registered monitor capture, as plain data, what it needs
*before* the call, (2) optionally fires a failpoint, (3) invokes the original,
(4) hands the outcome to the monitors, (5) re-raises / returns unchanged.  Monitors
record violations; they never raise into the code under test.
"""

from __future__ import annotations

import collections
import copy
import functools
import sys
import traceback
import types

GUARD = "CURIES_VERIF"


class Session:
    def __init__(self):
        self.reset_all()

    def reset_all(self):
        self.enabled = False
        self.in_monitor = 0
        self.depth = 0
        self.violations = []
        self.counters = collections.Counter()
        self.monitor_errors = []
        self.tracing = False
        self.events = []
        self.failpoint = None
        self.prop = None  # property id the running workload decides
        self.case = None  # description of the current generated case (for witnesses)
        self.case_keys = set()  # distinct non-trivial abstract keys (strings)
        self.all_keys = set()
        self.samples = []
        self.tainted = set()  # id() of converters whose records were altered by someone else
        self.registry = []  # weakrefs of converters created in the current case
        self.bound = collections.Counter()  # name -> number of bindings replaced
        self.max_violations = 200
        self.case_hooks = []  # callables run at the start of every case
        self.handed_out = []  # (function name, result object, copy taken when it was handed out) for container results
        self.asked = []  # (bound query method, args, kwargs) issued by the driver in this case: re-asked, shuffled, at its end
        self.asked_n = 0

    # -- per-case housekeeping ----------------------------------------------
    def begin_case(self, case):
        self.case = case
        self.events = []
        self.registry = []
        self.tainted = set()
        self.depth = 0
        self.failpoint = None
        for h in self.case_hooks:
            h()

    def end_case(self):
        # time-shifted damage: a container of strings handed out by a query must still hold what it held when it was
        # handed out (plus whatever the *caller* did to it - the drivers register that through note_caller_mutation)
        for fn_name, obj, snap in self.handed_out:
            try:
                same = obj == snap
            except Exception:  # noqa: BLE001
                same = False
            self.counters["eval:handed-out-result-stable"] += 1
            if not same:
                props = RESULT_OWNERS.get(fn_name, [self.prop] if self.prop else [])
                violation(props, "handed-out-result-stable", f"result-of-{fn_name}-changed-after-it-was-returned",
                          function=fn_name, returned=snap, now=obj)
        self.handed_out = []
        self.asked = []
        self.asked_n = 0
        self.case = None
        self.events = []
        self.registry = []
        self.tainted = set()
        self.failpoint = None


S = Session()


RESULT_OWNERS = {"expand_all": ["C02"], "expand_pair_all": ["C02"]}


def _string_container(x):
    return isinstance(x, (list, set, dict)) and len(x) < 64 and all(isinstance(e, str) for e in x) and (
        not isinstance(x, dict) or all(isinstance(v, str) for v in x.values()))


def note_caller_mutation(obj):
    """The driver changed a handed-out result itself: refresh the copy it is compared with at the end of the case."""
    for i, (fn_name, o, _snap) in enumerate(S.handed_out):
        if o is obj:
            S.handed_out[i] = (fn_name, o, copy.copy(o))


class OneShot:
    """Stand-in for a one-shot iterable argument (generator, iterator, map object).

    The monitors need to know what the caller handed over, the real function must still receive something that can be
    walked only once.  `items` is for the monitors; iteration consumes.
    """

    def __init__(self, items):
        self.items = list(items)
        self._it = iter(self.items)

    def __iter__(self):
        return self._it

    def __next__(self):
        return next(self._it)


def one_shot_or_list(x, keep=(list, tuple)):
    """Guard an iterable argument: one-shot iterators become OneShot (still one-shot for the callee, readable by the
    monitors); everything re-iterable - lists, sets, dict views, arrays, pandas Series - is handed over untouched."""
    if isinstance(x, keep) or isinstance(x, OneShot):
        return x
    try:
        if iter(x) is x:
            return OneShot(x)
    except TypeError:
        pass
    return x


def items_of(x):
    """What the caller handed over, as the monitor may read it (never consumes a one-shot iterable)."""
    if isinstance(x, OneShot):
        return x.items
    if x is None or isinstance(x, (list, tuple, set, frozenset, str)):
        return x
    try:
        return list(x)
    except TypeError:
        return x


class monitor_mode:
    """Context manager: code inside runs the real functions without being monitored."""

    def __enter__(self):
        S.in_monitor += 1

    def __exit__(self, *exc):
        S.in_monitor -= 1
        return False


def jsonable(x, depth=0):
    """Best-effort conversion of witness data to JSON-serialisable form."""
    if depth > 12:
        return repr(x)
    if isinstance(x, str):
        try:
            x.encode("utf-8")
            return x
        except UnicodeEncodeError:  # lone surrogates cannot be written to a UTF-8 file: show them escaped
            return x.encode("utf-8", "backslashreplace").decode("utf-8")
    if x is None or isinstance(x, (bool, int, float)):
        return x
    if isinstance(x, BaseException):
        return {"exception": type(x).__name__, "message": str(x)[:300]}
    if isinstance(x, type):
        return x.__name__
    if isinstance(x, dict):
        return {jsonable(str(k)): jsonable(v, depth + 1) for k, v in x.items()}
    if hasattr(x, "_asdict"):
        return {k: jsonable(v, depth + 1) for k, v in x._asdict().items()}
    if isinstance(x, (list, tuple, set, frozenset)):
        items = list(x)
        if isinstance(x, (set, frozenset)):
            try:
                items = sorted(items)
            except TypeError:
                pass
        return [jsonable(v, depth + 1) for v in items]
    return repr(x)[:300]


def violation(props, monitor, mechanism, **witness):
    """Record a violation of the given properties (list of ids)."""
    S.counters[f"violations:{monitor}"] += 1
    # two budgets: violations of the property under check are never crowded out by (possibly hundreds of) violations the
    # same change causes in neighbouring properties - only the former decide the verdict (seed C08-U: a recursion that
    # filled the list with C01 / C02 / C07 entries before the C08 relation was evaluated)
    own = S.prop is None or S.prop in props
    kind = "own" if own else "other"
    S.counters[f"violations_recorded:{kind}"] += 1
    if S.counters[f"violations_recorded:{kind}"] > S.max_violations:
        S.counters["violations_dropped"] += 1
        return
    S.violations.append(
        {
            "props": list(props),
            "monitor": monitor,
            "mechanism": mechanism,
            "case": jsonable(S.case),
            "witness": jsonable(witness),
        }
    )


def evaluated(monitor, n=1):
    S.counters[f"eval:{monitor}"] += n


def out_of_domain(monitor, why=""):
    S.counters[f"ood:{monitor}"] += 1
    if why:
        S.counters[f"ood:{monitor}:{why}"] += 1


def note_key(key, nontrivial=True):
    """Register an abstract case key; only non-trivial ones count as distinct cases."""
    S.all_keys.add(key)
    if nontrivial:
        S.case_keys.add(key)


def sample(obj, limit=6):
    if len(S.samples) < limit:
        S.samples.append(jsonable(obj))


def okey(o):
    """Comparable form of an outcome: the value, or only the *type* of the exception (messages are not promised)."""
    if isinstance(o, tuple) and len(o) == 2 and o[0] == "raise":
        return ("raise", type(o[1]).__name__)
    if isinstance(o, tuple) and len(o) == 2 and o[0] == "ret":
        return ("ret", repr(o[1]))
    if isinstance(o, (tuple, list)):
        return tuple(okey(x) for x in o)
    return repr(o)


def outcome_of(f, *a, **k):
    """Call f and return ("ret", value) or ("raise", exception)."""
    try:
        return ("ret", f(*a, **k))
    except Exception as e:  # noqa: BLE001
        return ("raise", e)


# ---------------------------------------------------------------------------
# wrappers
# ---------------------------------------------------------------------------


class Monitor:
    """Base class. pre() returns a context (or None = not interested / out of domain)."""

    name = "monitor"

    def pre(self, fn, args, kwargs):
        return None

    def post(self, fn, ctx, outcome, args, kwargs):
        pass


def _run_pre(monitors, fn, args, kwargs):
    ctxs = []
    S.in_monitor += 1
    try:
        for m in monitors:
            try:
                c = m.pre(fn, args, kwargs)
            except Exception:  # noqa: BLE001  (a bug in a monitor must be visible, not fatal)
                S.monitor_errors.append(f"{m.name}.pre({fn}): " + traceback.format_exc(limit=6))
                c = None
            if c is not None:
                ctxs.append((m, c))
    finally:
        S.in_monitor -= 1
    return ctxs


def _run_post(ctxs, fn, outcome, args, kwargs):
    S.in_monitor += 1
    try:
        for m, c in ctxs:
            try:
                m.post(fn, c, outcome, args, kwargs)
            except Exception:  # noqa: BLE001
                S.monitor_errors.append(f"{m.name}.post({fn}): " + traceback.format_exc(limit=6))
    finally:
        S.in_monitor -= 1


def make_wrapper(fn_name, orig, monitors, materialize=None):
    @functools.wraps(orig)
    def wrapper(*args, **kwargs):
        if S.in_monitor or not S.enabled:
            return orig(*args, **kwargs)
        if materialize is not None:
            args, kwargs = materialize(args, kwargs)
        S.counters[f"calls:{fn_name}"] += 1
        ctxs = _run_pre(monitors, fn_name, args, kwargs)
        ev = None
        if S.tracing:
            ev = {"fn": fn_name, "depth": S.depth, "args": args, "kwargs": dict(kwargs)}
            S.events.append(ev)
        S.depth += 1
        try:
            fp = S.failpoint
            if fp is not None:
                exc = fp(fn_name, args, kwargs)
                if exc is not None:
                    raise exc
            rv = orig(*args, **kwargs)
        except BaseException as e:
            S.depth -= 1
            if ev is not None:
                ev["outcome"] = ("raise", e)
            if isinstance(e, Exception):
                _run_post(ctxs, fn_name, ("raise", e), args, kwargs)
            raise
        S.depth -= 1
        if ev is not None:
            ev["outcome"] = ("ret", rv)
        _run_post(ctxs, fn_name, ("ret", rv), args, kwargs)
        if S.depth == 0 and _string_container(rv) and len(S.handed_out) < 300:
            S.handed_out.append((fn_name, rv, copy.copy(rv)))
        return rv

    wrapper.__rtmon_orig__ = orig
    return wrapper


def wrap_attr(owner, attr, fn_name, monitors, materialize=None):
    """Replace owner.attr (function, staticmethod or classmethod) by a monitored wrapper."""
    raw = owner.__dict__[attr] if isinstance(owner, type) else getattr(owner, attr)
    if isinstance(raw, classmethod):
        new = classmethod(make_wrapper(fn_name, raw.__func__, monitors, materialize))
    elif isinstance(raw, staticmethod):
        new = staticmethod(make_wrapper(fn_name, raw.__func__, monitors, materialize))
    elif isinstance(raw, types.FunctionType):
        new = make_wrapper(fn_name, raw, monitors, materialize)
    else:
        raise TypeError(f"cannot wrap {owner}.{attr}: {type(raw)}")
    setattr(owner, attr, new)
    S.bound[fn_name] += 1
    return new


def wrap_module_function(home_module, attr, fn_name, monitors, materialize=None, package="curies"):
    """Wrap a module-level function and rebind every `package.*` global that is the original."""
    orig = getattr(home_module, attr)
    if hasattr(orig, "__rtmon_orig__"):
        return orig
    new = make_wrapper(fn_name, orig, monitors, materialize)
    for modname, mod in list(sys.modules.items()):
        if mod is None or not (modname == package or modname.startswith(package + ".")):
            continue
        for k, v in list(vars(mod).items()):
            if v is orig:
                setattr(mod, k, new)
                S.bound[fn_name] += 1
    return new

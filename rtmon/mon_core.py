"""Always-on reference-model monitors for the query methods of Converter.

C01 parse_uri / compress / is_uri, C02 expand*, is_curie, C06 standardize_*,
C07 parse, *_or_standardize, *_strict, format_curie, and the online half of C08
(failure reporting per mode).
"""

from __future__ import annotations

from . import probe, spec
from .probe import S, Monitor, violation, evaluated, out_of_domain

QUERY_METHODS = {
    # name: property group
    "parse_uri": "C01",
    "compress": "C01",
    "is_uri": "C01",
    "expand": "C02",
    "expand_pair": "C02",
    "expand_reference": "C02",
    "expand_all": "C02",
    "expand_pair_all": "C02",
    "is_curie": "C02",
    "standardize_prefix": "C06",
    "standardize_curie": "C06",
    "standardize_uri": "C06",
    "parse": "C07",
    "parse_curie": "C02",
    "compress_or_standardize": "C07",
    "expand_or_standardize": "C07",
    "compress_strict": "C07",
    "expand_strict": "C07",
    "format_curie": "C07",
}

# methods whose override by a subclass changes the semantics the model assumes
SEMANTIC_METHODS = [*QUERY_METHODS, "standardize_identifier", "get_record"]

C08_FUNCTIONS = {
    "compress", "expand", "compress_or_standardize", "expand_or_standardize",
    "standardize_prefix", "standardize_curie", "standardize_uri", "expand_pair",
    "expand_reference", "expand_all", "expand_pair_all", "parse", "parse_uri", "parse_curie",
}

_api = None


def api():
    global _api
    if _api is None:
        import curies.api as a

        _api = a
    return _api


_plain_cache: dict = {}


def is_plain_converter(conv) -> bool:
    """The instance is a Converter whose query semantics are those of the base class."""
    t = type(conv)
    r = _plain_cache.get(t)
    if r is None:
        base = api().Converter
        r = isinstance(conv, base) and all(
            getattr(t, n, None) is getattr(base, n, None) for n in SEMANTIC_METHODS
        )
        _plain_cache[t] = r
    return r


def domain_spec(conv, monitor):
    """Return the SpecConverter of an in-domain (strict, untainted, base-class) converter, else None."""
    if not is_plain_converter(conv):
        out_of_domain(monitor, "subclass")
        return None
    # (a converter whose records were altered behind its back by a derivation - a C10 violation - is still a
    #  converter: its answers are compared with its own records like anybody else's)
    try:
        recs = spec.snapshot(conv)
        d = conv.delimiter
    except Exception:  # noqa: BLE001
        out_of_domain(monitor, "no-records")
        return None
    if not isinstance(d, str) or not d:
        out_of_domain(monitor, "delimiter")
        return None
    sp = spec.spec_for(recs, d)
    if not sp.unique:
        out_of_domain(monitor, "not-strict")
        return None
    return sp


def is_library_value_error(e) -> bool:
    t = type(e)
    return isinstance(e, ValueError) and (t.__module__ or "").startswith("curies")


def _bind(fn, args, kwargs):
    """Normalise the call's arguments: returns dict or None when outside the modelled signature."""
    a = list(args[1:])
    kw = dict(kwargs)

    def take(name, default=None, required=False):
        if a:
            return a.pop(0)
        if name in kw:
            return kw.pop(name)
        if required:
            raise TypeError(name)
        return default

    out = {}
    try:
        if fn in ("expand_pair", "expand_pair_all", "format_curie"):
            out["prefix"] = take("prefix", required=True)
            out["identifier"] = take("identifier", required=True)
        elif fn == "expand_reference":
            out["reference"] = take("reference", required=True)
        else:
            first = {
                "parse_uri": "uri", "compress": "uri", "is_uri": "s", "expand": "curie",
                "expand_all": "curie", "is_curie": "s", "standardize_prefix": "prefix",
                "standardize_curie": "curie", "standardize_uri": "uri", "parse": "uri_or_curie",
                "parse_curie": "curie", "compress_or_standardize": "uri_or_curie",
                "expand_or_standardize": "curie_or_uri", "compress_strict": "uri",
                "expand_strict": "curie",
            }[fn]
            out["x"] = take(first, required=True)
    except TypeError:
        return None
    if a:
        return None  # positional flags: not how the API is meant to be called; skip
    out["strict"] = bool(kw.pop("strict", False))
    out["passthrough"] = bool(kw.pop("passthrough", False))
    out["return_none"] = bool(kw.pop("return_none", False))
    if kw:
        return None
    return out


def _rt(t):
    return None if t is None else api().ReferenceTuple(*t)


class QueryMonitor(Monitor):
    """Compares every query answer with the model computed from `records`."""

    name = "query-model"

    def pre(self, fn, args, kwargs):
        conv = args[0]
        sp = domain_spec(conv, f"{self.name}:{fn}")
        if sp is None:
            return None
        b = _bind(fn, args, kwargs)
        if b is None:
            out_of_domain(f"{self.name}:{fn}", "signature")
            return None
        vals = [b.get("x"), b.get("prefix"), b.get("identifier")]
        if fn == "expand_reference":
            r = b["reference"]
            if not (isinstance(r, tuple) and len(r) == 2 and all(isinstance(v, str) for v in r)):
                out_of_domain(f"{self.name}:{fn}", "argtype")
                return None
        elif not all(v is None or isinstance(v, str) for v in vals) or all(v is None for v in vals):
            out_of_domain(f"{self.name}:{fn}", "argtype")
            return None
        return (sp, b)

    def post(self, fn, ctx, outcome, args, kwargs):
        sp, b = ctx
        group = QUERY_METHODS[fn]
        strict, pt = b["strict"], b["passthrough"]
        x = b.get("x")
        none_value = None
        pt_value = x
        has_pt = True
        listy = False
        if fn == "parse_uri":
            base = _rt(sp.parse_uri(x))
            none_value = None if b["return_none"] else (None, None)
            has_pt = False
        elif fn == "compress":
            base = sp.compress(x)
        elif fn == "is_uri":
            return self._bool(fn, group, sp, x, outcome, sp.parse_uri(x) is not None)
        elif fn == "is_curie":
            return self._bool(fn, group, sp, x, outcome, sp.parse_curie(x) is not None)
        elif fn == "expand":
            base = sp.expand(x)
        elif fn == "expand_pair":
            base = sp.expand_pair(b["prefix"], b["identifier"])
            pt_value = sp.fmt(b["prefix"], b["identifier"])
            x = [b["prefix"], b["identifier"]]
        elif fn == "expand_reference":
            p, i = b["reference"]
            # expand_reference looks the prefix up as given (canonical prefix or synonym)
            base = sp.expand_pair(p, i)
            pt_value = sp.fmt(p, i)
            x = [p, i]
        elif fn == "expand_all":
            base = sp.expand_all(x)
            has_pt = False
            listy = True
        elif fn == "expand_pair_all":
            base = sp.expand_pair_all(b["prefix"], b["identifier"])
            has_pt = False
            listy = True
            x = [b["prefix"], b["identifier"]]
        elif fn == "standardize_prefix":
            base = sp.standardize_prefix(x)
        elif fn == "standardize_curie":
            base = sp.standardize_curie(x)
        elif fn == "standardize_uri":
            base = sp.standardize_uri(x)
        elif fn == "parse":
            base = _rt(sp.parse(x))
            has_pt = False
        elif fn == "parse_curie":
            base = _rt(sp.parse_curie(x))
            has_pt = False
        elif fn == "compress_or_standardize":
            base = sp.compress_or_standardize(x)
        elif fn == "expand_or_standardize":
            base = sp.expand_or_standardize(x)
        elif fn == "compress_strict":
            base = sp.compress(x)
            strict, has_pt = True, False
        elif fn == "expand_strict":
            base = sp.expand(x)
            strict, has_pt = True, False
        elif fn == "format_curie":
            base = sp.fmt(b["prefix"], b["identifier"])
            x = [b["prefix"], b["identifier"]]
            has_pt = False
        else:  # pragma: no cover
            return
        evaluated(f"{self.name}:{fn}")
        evaluated(f"prop:{group}")
        if fn in C08_FUNCTIONS:
            evaluated("prop:C08")
        def W():  # the witness is only built when there is something to report
            return {
                "function": fn,
                "records": [spec.rec_dict(r) for r in sp.recs],
                "delimiter": sp.d,
                "input": x,
                "strict": strict,
                "passthrough": pt,
            }

        kind, val = outcome
        if base is not None:
            ok = kind == "ret" and (
                (_same_list(val, base)) if listy else (val == base and type(val) is type(base))
            )
            if not ok:
                violation(
                    [group], f"{self.name}:{fn}", _mech(fn, sp, x, base, outcome),
                    expected=base, observed=_obs(outcome), **W(),
                )
            return
        # the model says: no result.  What remains is failure reporting.
        if kind == "ret" and val is not None and val != (None, None) and not (
            has_pt and pt and not strict and val == pt_value
        ):
            violation(
                [group], f"{self.name}:{fn}", "answers-where-model-has-none",
                expected=None, observed=_obs(outcome), **W(),
            )
            return
        if strict:
            if not (kind == "raise" and is_library_value_error(val)):
                violation(
                    ["C08"] if fn in C08_FUNCTIONS else [group], f"{self.name}:{fn}",
                    "strict-does-not-raise-library-error",
                    expected="raises a curies ValueError subclass", observed=_obs(outcome), **W(),
                )
        elif kind == "raise":
            mech = "raises-in-non-strict-mode"
            if type(val).__name__ == "NoCURIEDelimiterError":
                mech = "no-delimiter-raises-in-non-strict-mode"
            violation(
                ["C08"] if fn in C08_FUNCTIONS else [group], f"{self.name}:{fn}", mech,
                expected=pt_value if (has_pt and pt) else none_value, observed=_obs(outcome), **W(),
            )
        else:
            want = pt_value if (has_pt and pt) else none_value
            if val != want:
                violation(
                    ["C08"] if fn in C08_FUNCTIONS else [group], f"{self.name}:{fn}",
                    "wrong-failure-value", expected=want, observed=_obs(outcome), **W(),
                )

    def _bool(self, fn, group, sp, x, outcome, want):
        evaluated(f"{self.name}:{fn}")
        evaluated(f"prop:{group}")
        evaluated("prop:C07")
        if outcome != ("ret", want):
            violation(
                [group, "C07"], f"{self.name}:{fn}", _mech(fn, sp, x, want, outcome),
                function=fn, records=[spec.rec_dict(r) for r in sp.recs], delimiter=sp.d,
                input=x, expected=want, observed=_obs(outcome),
            )


def _same_list(val, base):
    """expand_all: canonical expansion first, then one per URI synonym (order among synonyms free)."""
    if not isinstance(val, (list, tuple)):
        return False
    val = list(val)
    return bool(val) and val[0] == base[0] and sorted(val[1:]) == sorted(base[1:])


def _obs(outcome):
    kind, val = outcome
    if kind == "raise":
        return {"raised": type(val).__name__, "message": str(val)[:200]}
    return {"returned": probe.jsonable(val)}


def _mech(fn, sp, x, base, outcome):
    """Name the mechanism of a value mismatch (used to key known findings, never values)."""
    # empty canonical prefix involved?
    strs = x if isinstance(x, list) else [x]
    empties = any(r.prefix == "" for r in sp.recs)
    if empties and outcome[0] == "ret" and outcome[1] in (None, False):
        first = strs[0] if strs else ""
        s = sp.split(first) if isinstance(first, str) else None
        if (s and sp.prefix_owner(s[0]) and sp.prefix_owner(s[0]).prefix == "") or (
            isinstance(first, str) and sp.prefix_owner(first) and sp.prefix_owner(first).prefix == ""
        ):
            return "empty-canonical-prefix-not-resolved"
    if outcome[0] == "raise":
        return "raises:" + type(outcome[1]).__name__
    return "value-differs-from-model"


def install(extra_monitors=()):
    """Wrap the query methods of curies.api.Converter."""
    conv = api().Converter
    qm = QueryMonitor()
    for name in QUERY_METHODS:
        probe.wrap_attr(conv, name, name, [qm, *extra_monitors])
    _plain_cache.clear()
    return qm

"""A bounded world on the CURIE side, enumerated completely (C02, C03, C06, C07).

Every strict converter of one or two records whose CURIE prefixes come from {"", "a", "A", "ab"} and whose URI prefixes
come from {"", "a", "a:", "ab"} (one optional synonym on either side) - so that prefixes are case variants and proper
prefixes of each other, the empty prefix occurs as canonical prefix and as synonym, a URI prefix looks like a CURIE
("a:") and a CURIE prefix starts a URI prefix - asked every string over {a, A, b, :} up to a length bound.  With the
delimiter "::" the same converters are asked every string over {a, A, :} up to length 5 (thorough tier only).

The answers are judged by the always-on reference-model monitors; the workloads add their relational checks.
"""

from __future__ import annotations

import itertools

from . import gen, probe, spec

P2 = ["", "a", "A", "ab"]
U2 = ["", "a", "a:", "ab"]
CHUNK = 40


def _sides(strings):
    out = []
    for c in strings:
        out.append((c, ()))
        for s in strings:
            if s != c:
                out.append((c, (s,)))
    return out


_WORLD = None


def world():
    global _WORLD
    if _WORLD is None:
        one = [spec.Rec(p, u, ps, us, None) for p, ps in _sides(P2) for u, us in _sides(U2)]
        out = [(r,) for r in one]
        for a, b in itertools.combinations(one, 2):
            if set(spec.all_p(a)) & set(spec.all_p(b)) or set(spec.all_u(a)) & set(spec.all_u(b)):
                continue
            out.append((a, b))
        _WORLD = out
    return _WORLD


_Q = {}


def queries(tier, delimiter=":"):
    key = (tier, delimiter)
    if key not in _Q:
        if delimiter == ":":
            n = 4 if tier == "thorough" else 3
            alphabet = "aAb:"
        else:
            n = 5
            alphabet = "aA:"
        _Q[key] = [""] + ["".join(t) for k in range(1, n + 1) for t in itertools.product(alphabet, repeat=k)]
    return _Q[key]


def n_chunks():
    return -(-len(world()) // CHUNK)


def chunk(ctx, g):
    """The converters of chunk g (built with the constructor, the subject here is the answers), with their records."""
    out = []
    for recs in world()[g * CHUNK:(g + 1) * CHUNK]:
        for d in ((":", "::") if ctx.tier == "thorough" else (":",)):
            with probe.monitor_mode():
                c = ctx.api.Converter([gen.mk_record(ctx.api, r) for r in recs], delimiter=d)
            out.append((c, recs, d))
        probe.S.counters["wl:curie-small-world-converters"] += 1
    return out


def active(ctx, g):
    """quick: every fourth chunk (a sample of the world); thorough: the whole world."""
    # (quick: one chunk in four, at residues that rotate from one block of 16 cases to the next, so that the enumerated
    #  cases spread evenly over 8 or 16 shards instead of landing on two of them)
    return g < n_chunks() and (ctx.tier == "thorough" or (g + g // 16) % 4 == 0)


def exhaustive(tier, counters):
    n = counters.get("wl:curie-small-world-converters", 0)
    total = len(world())
    return {
        "small_world_exhaustive": n == total,
        "explanation": (
            f"{n} of {total} converters enumerated: every strict converter of one or two records over CURIE prefixes {P2} and URI prefixes {U2} "
            f"(at most one synonym per side), each asked every string over 'aAb:' up to length {4 if tier == 'thorough' else 3}"
            + (" and, with the delimiter '::', every string over 'aA:' up to length 5" if tier == "thorough" else " (quick tier: every fourth chunk of the world)")
            + "; random cases beyond that are sampling"
        ),
    }

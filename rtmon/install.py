"""Install every always-on monitor on the real curies objects (guard: CURIES_VERIF)."""

from __future__ import annotations

import os

from . import probe

_installed = False


def install_all(force=False):
    """Idempotent.  Returns True when the probes are in place."""
    global _installed
    if _installed:
        return True
    if not force and os.environ.get(probe.GUARD, "") in ("", "0"):
        return False
    import curies  # noqa: F401
    import curies.api  # noqa: F401
    import curies.discovery  # noqa: F401
    import curies.reconciliation  # noqa: F401
    import curies.triples  # noqa: F401
    import curies.w3c  # noqa: F401

    from . import mon_bulk, mon_core, mon_derive, mon_io, mon_misc, mon_state

    mon_core.install()
    _cm, _am, frame = mon_state.install()
    mon_derive.install(frame)
    mon_io.install()
    mon_misc.install()
    mon_bulk.install()
    _installed = True
    probe.S.enabled = True
    return True

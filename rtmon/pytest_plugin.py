"""pytest plugin: keep the always-on monitors attached while the repository's own tests run.

usage (from /repo): PYTHONPATH=/repo/src:/verif CURIES_VERIF=1 RTMON_OUT=<file> pytest tests -p rtmon.pytest_plugin
"""

from __future__ import annotations

import json
import os
import time

_t0 = time.time()


def pytest_configure(config):
    from . import cover, install, probe

    cover.start(os.environ.get("RTMON_SRC", "/repo/src"))
    install.install_all(force=True)
    probe.S.max_violations = 500


def pytest_runtest_setup(item):
    from . import probe

    probe.S.begin_case({"repo_test": item.nodeid})


def pytest_runtest_teardown(item):
    from . import probe

    probe.S.end_case()


def pytest_sessionfinish(session, exitstatus):
    from . import cover, probe

    S = probe.S
    out = os.environ.get("RTMON_OUT")
    if not out:
        return
    result = {
        "ok": True, "cases": session.testscollected, "counters": dict(S.counters), "bound": dict(S.bound),
        "violations": S.violations, "keys": [], "all_keys": 0, "samples": [], "entered": sorted(cover.entered),
        "monitor_errors": S.monitor_errors[:20], "wall_s": round(time.time() - _t0, 2), "pytest_exit": int(exitstatus),
    }
    with open(out, "w") as f:
        json.dump(result, f, ensure_ascii=False, default=repr)

"""Postcondition monitors for the deriving operations: C09, C11, C12, C19."""

from __future__ import annotations

import collections
import itertools
import random

from . import probe, spec
from .mon_core import api, domain_spec
from .mon_state import FrameMonitor, structural_diffs
from .probe import S, Monitor, evaluated, out_of_domain, violation

_rec = None


def recon():
    global _rec
    if _rec is None:
        import curies.reconciliation as r

        _rec = r
    return _rec


def dicts(recs):
    return [spec.rec_dict(r) for r in recs]


def norm_set(recs):
    return sorted((spec.norm(r) for r in recs), key=repr)


def copy_converter(conv):
    """An independent converter with equal records (used when a monitor must re-invoke an operation)."""
    a = api()
    return a.Converter(
        [a.Record(**spec.rec_dict(r)) for r in spec.snapshot(conv)], delimiter=conv.delimiter
    )


# ---------------------------------------------------------------------------
# C09 chain
# ---------------------------------------------------------------------------


class ChainMonitor(Monitor):
    name = "chain"

    def pre(self, fn, args, kwargs):
        a = list(args)
        kw = dict(kwargs)
        convs = a.pop(0) if a else kw.pop("converters", None)
        cs = kw.pop("case_sensitive", True)
        if a or kw or not isinstance(convs, (list, tuple)) or not convs:
            out_of_domain(self.name, "signature-or-empty")
            return None
        specs = []
        for c in convs:
            sp = domain_spec(c, self.name)
            if sp is None:
                return None
            specs.append(sp)
        return {"inputs": [sp.recs for sp in specs], "cs": bool(cs)}

    def post(self, fn, ctx, outcome, args, kwargs):
        inputs, cs = ctx["inputs"], ctx["cs"]
        groups, bridge = spec.chain_fold(inputs, cs)
        kind, val = outcome
        evaluated(self.name)
        evaluated("prop:C09")
        w = {"inputs": [dicts(r) for r in inputs], "case_sensitive": cs}
        if kind == "raise":
            if groups is not None:
                violation(["C09"], self.name, "chain-rejects-without-bridging-record", observed=val, **w)
            elif not isinstance(val, ValueError):
                violation(["C09"], self.name, "bridging-rejection-is-not-ValueError", observed=val, **w)
            return
        res = val
        recs = spec.snapshot(res)
        w["result"] = dicts(recs)
        diffs = structural_diffs(res, recs)
        if diffs:
            violation(["C09"], self.name, "result-breaks-C04-C05-invariants", diffs=diffs, **w)
            return
        in_p = {x for rs in inputs for r in rs for x in spec.all_p(r)}
        in_u = {x for rs in inputs for r in rs for x in spec.all_u(r)}
        out_p = {x for r in recs for x in spec.all_p(r)}
        out_u = {x for r in recs for x in spec.all_u(r)}
        if in_p != out_p or in_u != out_u:
            violation(
                ["C09"], self.name, "union-not-exact",
                lost_prefixes=sorted(in_p - out_p), invented_prefixes=sorted(out_p - in_p),
                lost_uri_prefixes=sorted(in_u - out_u), invented_uri_prefixes=sorted(out_u - in_u), **w,
            )
            return
        owner_p = {x: i for i, r in enumerate(recs) for x in spec.all_p(r)}
        owner_u = {x: i for i, r in enumerate(recs) for x in spec.all_u(r)}
        for rs in inputs:
            for r in rs:
                owners = {owner_p[x] for x in spec.all_p(r)} | {owner_u[x] for x in spec.all_u(r)}
                if len(owners) != 1:
                    violation(["C09"], self.name, "input-record-split-across-result-records", record=spec.rec_dict(r), **w)
                    return
        if groups is None:
            return  # bridging input accepted and every stated clause holds: nothing more is promised
        # priority: the head of every group, in fold order, provides the canonical values
        want = sorted(((g["p"][0], g["u"][0], frozenset(g["p"][1:]), frozenset(g["u"][1:]), g["pattern"] or None) for g in groups), key=repr)
        got = norm_set(recs)
        if got != want:
            mech = "priority-or-grouping-differs-from-fold"
            if len(inputs) == 1:
                mech = "chain-of-one-not-equivalent"
            violation(["C09"], self.name, mech, expected=[list(map(probe.jsonable, x)) for x in want], **w)
            return
        if cs:
            c1 = spec.SpecConverter(inputs[0], ":")
            rs = spec.SpecConverter(recs, ":")
            for p in c1.prefixes(True):
                if rs.expand_pair(p, "1") != c1.expand_pair(p, "1"):
                    violation(["C09"], self.name, "first-converter-expansion-changed", prefix=p, **w)
                    return
        else:
            seen = {}
            for i, r in enumerate(recs):
                for x in spec.all_p(r):
                    j = seen.setdefault(x.casefold(), i)
                    if j != i:
                        violation(["C09"], self.name, "case-variants-in-two-records", prefix=x, **w)
                        return


# ---------------------------------------------------------------------------
# C09 get_subconverter
# ---------------------------------------------------------------------------


def materialize_sub(args, kwargs):
    keep = (list, tuple, set, frozenset)
    if len(args) >= 2 and not isinstance(args[1], keep):
        args = (args[0], probe.one_shot_or_list(args[1], keep), *args[2:])
    elif "prefixes" in kwargs and not isinstance(kwargs["prefixes"], keep):
        kwargs = dict(kwargs, prefixes=probe.one_shot_or_list(kwargs["prefixes"], keep))
    return args, kwargs


class SubconverterMonitor(Monitor):
    name = "get_subconverter"

    def pre(self, fn, args, kwargs):
        sp = domain_spec(args[0], self.name)
        if sp is None:
            return None
        prefixes = probe.items_of(args[1] if len(args) >= 2 else kwargs.get("prefixes"))
        if prefixes is None or not all(isinstance(p, str) for p in prefixes):
            out_of_domain(self.name, "argtype")
            return None
        return {"sp": sp, "P": set(prefixes)}

    def post(self, fn, ctx, outcome, args, kwargs):
        sp, P = ctx["sp"], ctx["P"]
        evaluated(self.name)
        evaluated("prop:C09")
        w = {"parent": dicts(sp.recs), "prefixes": sorted(P)}
        kind, val = outcome
        if kind == "raise":
            violation(["C09"], self.name, "get_subconverter-raises", observed=val, **w)
            return
        recs = spec.snapshot(val)
        want = [r for r in sp.recs if P & set(spec.all_p(r))]
        w["result"] = dicts(recs)
        if norm_set(recs) != norm_set(want):
            violation(["C09"], self.name, "subconverter-records-not-the-restriction", expected=dicts(want), **w)
            return
        diffs = structural_diffs(val, recs)
        if diffs:
            violation(["C09"], self.name, "result-breaks-C04-C05-invariants", diffs=diffs, **w)


# ---------------------------------------------------------------------------
# C11 remap_curie_prefixes
# ---------------------------------------------------------------------------


def curie_remap_rejection_reasons(sp, m):
    """The documented reasons for rejecting a CURIE-prefix remapping, restated."""
    own = lambda s: (sp.prefix_owner(s).prefix if sp.prefix_owner(s) else None)  # noqa: E731
    reasons = []
    by = collections.defaultdict(list)
    for k in m:
        by[own(k)].append(k)
    if any(len(v) > 1 for k, v in by.items() if k is not None):
        reasons.append("duplicate-keys")
    by = collections.defaultdict(list)
    for v in m.values():
        by[own(v)].append(v)
    if any(len(v) > 1 for k, v in by.items() if k is not None):
        reasons.append("duplicate-values")
    use = collections.defaultdict(set)
    for k, v in m.items():
        use[own(k)].add(k)
        if own(k) != own(v):
            use[own(v)].add(v)
    if any(len(v) > 1 for k, v in use.items() if k is not None):
        reasons.append("inconsistent")
    if set(m) & set(m.values()):
        d = dict(m)
        while d:
            leaves = set(d.values()) - set(d)
            if not leaves:
                reasons.append("cycle")
                break
            d = {k: v for k, v in d.items() if v not in leaves}
    return reasons


class RemapCurieMonitor(Monitor):
    name = "remap_curie_prefixes"

    def pre(self, fn, args, kwargs):
        a, kw = list(args), dict(kwargs)
        conv = a.pop(0) if a else kw.pop("converter", None)
        m = a.pop(0) if a else kw.pop("remapping", None)
        if a or kw or not isinstance(m, dict) or not all(isinstance(x, str) for kv in m.items() for x in kv):
            out_of_domain(self.name, "signature")
            return None
        sp = domain_spec(conv, self.name)
        if sp is None:
            return None
        return {"sp": sp, "m": dict(m)}

    def post(self, fn, ctx, outcome, args, kwargs):
        sp, m = ctx["sp"], ctx["m"]
        before = sp.recs
        kind, val = outcome
        evaluated(self.name)
        evaluated("prop:C11")
        w = {"records": dicts(before), "remapping": m}
        reasons = curie_remap_rejection_reasons(sp, m)
        r = recon()
        documented = (r.DuplicateKeys, r.DuplicateValues, r.InconsistentMapping, r.CycleDetected)
        if kind == "raise":
            if not isinstance(val, documented):
                violation(["C11"], self.name, "undocumented-error", observed=val, **w)
            elif not reasons:
                violation(["C11"], self.name, "rejects-remapping-without-documented-reason", observed=val, **w)
            return
        after = spec.snapshot(val)
        w["result"] = dicts(after)
        asp = spec.SpecConverter(after, ":")
        if len(after) != len(before):
            violation(["C11"], self.name, "record-count-changed", **w)
            return
        if not asp.unique:
            violation(["C11"], self.name, "result-not-one-owner", **w)
            return
        # track records by canonical URI prefix
        by_u = {r_.uri_prefix: r_ for r_ in after}
        track = {}
        for b in before:
            a_ = by_u.get(b.uri_prefix)
            if a_ is None or set(a_.usyn) != set(b.usyn):
                violation(["C11"], self.name, "uri-side-of-record-changed", record=spec.rec_dict(b), **w)
                return
            track[b.prefix] = a_
        known_before = sp.prefixes(True)
        known_after = asp.prefixes(True)
        applicable = {k: v for k, v in m.items() if sp.prefix_owner(k) is not None}
        lost = known_before - known_after
        if lost:
            mech = "prefix-forgotten"
            if set(m) & set(m.values()):
                mech = "prefix-forgotten-by-transitive-remapping"
            violation(["C11"], self.name, mech, lost=sorted(lost), **w)
            return
        invented = known_after - known_before - set(applicable.values())
        if invented:
            violation(["C11"], self.name, "prefix-invented", invented=sorted(invented), **w)
            return
        # every URI still parses to the same identifier under the record's (possibly new) name
        for b in before:
            for u in spec.all_u(b):
                bo = sp.parse_uri(u + "ID")
                if asp.parse_uri(u + "ID") != (track[bo[0]].prefix, bo[1]):
                    violation(["C11"], self.name, "uri-no-longer-compresses-to-same-record", uri_prefix=u, **w)
                    return
        # old names stay with their record unless an applicable pair hands them to the key's record
        for b in before:
            for p in spec.all_p(b):
                allowed = {track[b.prefix].uri_prefix}
                for k, v in applicable.items():
                    if v == p:
                        allowed.add(track[sp.prefix_owner(k).prefix].uri_prefix)
                if asp.prefix_owner(p).uri_prefix not in allowed:
                    violation(["C11"], self.name, "old-prefix-moved-to-unrelated-record", prefix=p, **w)
                    return
        value_count = collections.Counter(m.values())
        touched = set()
        for k, v in applicable.items():
            touched.add(sp.prefix_owner(k).prefix)
            if sp.prefix_owner(v) is not None:
                touched.add(sp.prefix_owner(v).prefix)
        for k, v in applicable.items():
            a_ = track[sp.prefix_owner(k).prefix]
            if v not in known_before and value_count[v] == 1 and a_.prefix != v:
                violation(["C11"], self.name, "unused-new-prefix-not-canonical", pair=[k, v], **w)
                return
            vo = sp.prefix_owner(v)
            if vo is not None and vo.prefix != sp.prefix_owner(k).prefix and v not in applicable:
                # new prefix belongs to another record which is not handing it over: skipped
                ko = sp.prefix_owner(k)
                others = [kk for kk, vv in applicable.items() if kk != k and (sp.prefix_owner(kk) is ko or sp.prefix_owner(vv) is ko)]
                if not others and spec.norm(a_) != spec.norm(ko):
                    violation(["C11"], self.name, "clashing-pair-not-skipped", pair=[k, v], **w)
                    return
        for b in before:
            if b.prefix not in touched and spec.norm(track[b.prefix]) != spec.norm(b):
                violation(["C11"], self.name, "untouched-record-changed", record=spec.rec_dict(b), **w)
                return
        diffs = structural_diffs(val, after)
        if diffs:
            violation(["C11"], self.name, "result-breaks-C04-C05-invariants", diffs=diffs, **w)


# ---------------------------------------------------------------------------
# C12 remap_uri_prefixes / rewire
# ---------------------------------------------------------------------------


class UriRemapMonitor(Monitor):
    """fn == 'remap_uri_prefixes' (keys: URI prefixes) or 'rewire' (keys: CURIE prefixes)."""

    name = "uri-remap"

    def pre(self, fn, args, kwargs):
        a, kw = list(args), dict(kwargs)
        conv = a.pop(0) if a else kw.pop("converter", None)
        m = a.pop(0) if a else kw.pop("remapping" if fn == "remap_uri_prefixes" else "rewiring", None)
        mon = f"{self.name}:{fn}"
        if a or kw or not isinstance(m, dict) or not all(isinstance(x, str) for kv in m.items() for x in kv):
            out_of_domain(mon, "signature")
            return None
        if len(set(m.values())) != len(m):
            out_of_domain(mon, "not-injective")
            return None
        sp = domain_spec(conv, mon)
        if sp is None:
            return None
        return {"sp": sp, "m": dict(m)}

    def post(self, fn, ctx, outcome, args, kwargs):
        sp, m = ctx["sp"], ctx["m"]
        mon = f"{self.name}:{fn}"
        before = sp.recs
        kind, val = outcome
        evaluated(mon)
        evaluated("prop:C12")
        w = {"operation": fn, "records": dicts(before), "mapping": m}
        inter = set(m) & set(m.values())
        if fn == "remap_uri_prefixes":
            te = recon().TransitiveError
            if inter:
                if not (kind == "raise" and isinstance(val, te)):
                    violation(["C12"], mon, "transitive-mapping-not-rejected", intersection=sorted(inter),
                              observed=val if kind == "raise" else "returned", **w)
                return
            if kind == "raise" and isinstance(val, te):
                violation(["C12"], mon, "spurious-TransitiveError", **w)
                return
        if kind == "raise":
            violation(["C12"], mon, "raises", observed=val, **w)
            return
        after = spec.snapshot(val)
        w["result"] = dicts(after)
        if len(after) != len(before):
            violation(["C12"], mon, "record-count-changed", **w)
            return
        by_p = {r.prefix: r for r in after}
        owner_u = {u: r.prefix for r in before for u in spec.all_u(r)}
        for b in before:
            a_ = by_p.get(b.prefix)
            if a_ is None or set(a_.psyn) != set(b.psyn) or (a_.pattern or None) != (b.pattern or None):
                violation(["C12"], mon, "curie-side-of-record-changed", record=spec.rec_dict(b), **w)
                return
            old, new = set(spec.all_u(b)), set(spec.all_u(a_))
            if not old <= new:
                violation(["C12"], mon, "uri-prefix-forgotten", record=spec.rec_dict(b), lost=sorted(old - new), **w)
                return
            keys = spec.all_u(b) if fn == "remap_uri_prefixes" else spec.all_p(b)
            hits = [m[k] for k in keys if k in m]
            gained = new - old
            if len(gained) > 1 or not gained <= set(hits):
                violation(["C12"], mon, "gained-unmapped-uri-prefix", record=spec.rec_dict(b), gained=sorted(gained), **w)
                return
            if not hits:
                if spec.norm(a_) != spec.norm(b):
                    violation(["C12"], mon, "unmapped-record-changed", record=spec.rec_dict(b), **w)
                    return
            elif len(hits) == 1:
                n = hits[0]
                mine = owner_u.get(n) in (None, b.prefix)
                if mine:
                    if a_.uri_prefix != n:
                        violation(["C12"], mon, "new-uri-prefix-not-canonical", record=spec.rec_dict(b), new=n, **w)
                        return
                    if new != old | {n}:
                        violation(["C12"], mon, "uri-prefix-set-wrong-after-upgrade", record=spec.rec_dict(b), **w)
                        return
                elif spec.norm(a_) != spec.norm(b):
                    violation(["C12"], mon, "clashing-new-uri-prefix-not-a-no-op", record=spec.rec_dict(b), new=n,
                              owner=owner_u.get(n), **w)
                    return
        diffs = structural_diffs(val, after)
        if diffs:
            violation(["C12"], mon, "result-breaks-C04-C05-invariants", diffs=diffs, **w)
            return
        if fn == "rewire":
            # applying the same rewiring twice equals applying it once (on an independent copy)
            again = outcome_of_rewire(val, m)
            if again[0] == "raise" or norm_set(spec.snapshot(again[1])) != norm_set(after):
                violation(["C12"], mon, "rewire-not-idempotent",
                          second=again[1] if again[0] == "raise" else dicts(spec.snapshot(again[1])), **w)


def outcome_of_rewire(conv, m):
    try:
        return ("ret", recon().rewire(copy_converter(conv), dict(m)))
    except Exception as e:  # noqa: BLE001
        return ("raise", e)


# ---------------------------------------------------------------------------
# C19 discover
# ---------------------------------------------------------------------------

DEFAULT_DELIMITERS = ("#", "/", "_")


def materialize_discover(args, kwargs):
    if args and not isinstance(args[0], (list, tuple)):
        args = (probe.one_shot_or_list(args[0]), *args[1:])
    elif "uris" in kwargs and not isinstance(kwargs["uris"], (list, tuple)):
        kwargs = dict(kwargs, uris=probe.one_shot_or_list(kwargs["uris"]))
    return args, kwargs


def is_github_issue(u):
    return u.startswith("https://github.com") and "issues" in u


def discover_contract(uris, delimiters, cutoff, metaprefix, known, skip_github):
    """uri prefix -> identifiers, by the documented rule; `known(u)` says if a given converter recognises u."""
    d = collections.defaultdict(set)
    for u in set(uris):
        if known(u):
            continue
        if skip_github and is_github_issue(u):
            continue
        for dl in delimiters:
            i = u.rfind(dl)
            if i < 0:
                continue
            tail = u[i + len(dl):]
            if tail.isalnum():
                d[u[: i + len(dl)]].add(tail)
                break
    keep = sorted(p for p, ids in d.items() if cutoff is None or len(ids) >= cutoff)
    return {f"{metaprefix}{i}": p for i, p in enumerate(keep, 1)}


class DiscoverMonitor(Monitor):
    name = "discover"

    def pre(self, fn, args, kwargs):
        a, kw = list(args), dict(kwargs)
        uris = probe.items_of(a.pop(0) if a else kw.pop("uris", None))
        delimiters = kw.pop("delimiters", None)
        cutoff = kw.pop("cutoff", None)
        meta = kw.pop("metaprefix", "ns")
        conv = kw.pop("converter", None)
        if a or kw or uris is None or not all(isinstance(u, str) for u in uris):
            out_of_domain(self.name, "signature")
            return None
        if delimiters is not None and (
            isinstance(delimiters, str) or not all(isinstance(x, str) and x for x in delimiters)
        ):
            out_of_domain(self.name, "delimiters")
            return None
        if not (cutoff is None or (isinstance(cutoff, int) and not isinstance(cutoff, bool))) or not isinstance(meta, str):
            out_of_domain(self.name, "argtype")
            return None
        csp = None
        if conv is not None:
            csp = domain_spec(conv, self.name)
            if csp is None:
                return None
        return {
            "uris": list(uris), "delimiters": list(delimiters) if delimiters else list(DEFAULT_DELIMITERS),
            "given_delimiters": None if delimiters is None else list(delimiters),
            "cutoff": cutoff, "meta": meta, "csp": csp,
        }

    def post(self, fn, ctx, outcome, args, kwargs):
        uris, dls, cutoff, meta, csp = ctx["uris"], ctx["delimiters"], ctx["cutoff"], ctx["meta"], ctx["csp"]
        evaluated(self.name)
        evaluated("prop:C19")
        w = {
            "uris": uris, "delimiters": ctx["given_delimiters"], "cutoff": cutoff, "metaprefix": meta,
            "converter": None if csp is None else dicts(csp.recs),
        }
        kind, val = outcome
        if kind == "raise":
            violation(["C19"], self.name, "discover-raises", observed=val, **w)
            return
        recs = spec.snapshot(val)
        w["result"] = {r.prefix: r.uri_prefix for r in recs}
        diffs = structural_diffs(val, recs)
        if diffs:
            violation(["C19"], self.name, "result-not-a-valid-strict-converter", diffs=diffs, **w)
            return
        if any(r.psyn or r.usyn for r in recs):
            violation(["C19"], self.name, "result-has-synonyms", **w)
            return
        for r in recs:
            if not any(r.uri_prefix.endswith(dl) for dl in dls):
                violation(["C19"], self.name, "uri-prefix-does-not-end-in-delimiter", uri_prefix=r.uri_prefix, **w)
                return
        names = [r.prefix for r in sorted(recs, key=lambda r: r.uri_prefix)]
        if names != [f"{meta}{i}" for i in range(1, len(recs) + 1)]:
            violation(["C19"], self.name, "numbering-not-in-sorted-uri-prefix-order", **w)
            return
        known = (lambda u: csp.parse_uri(u) is not None) if csp is not None else (lambda u: False)
        got = {r.prefix: r.uri_prefix for r in recs}
        want = discover_contract(uris, dls, cutoff, meta, known, skip_github=False)
        if got != want:
            mech = "result-differs-from-documented-contract"
            if got == discover_contract(uris, dls, cutoff, meta, known, skip_github=True):
                mech = "github-issues-uri-skipped"
            violation(["C19"], self.name, mech, expected=want, **w)
            return
        if cutoff is None:
            rsp = spec.SpecConverter(recs, val.delimiter)
            for u in set(uris):
                if known(u):
                    continue
                if any(dl in u and u[u.rfind(dl) + len(dl):].isalnum() for dl in dls):
                    c = rsp.compress(u)
                    if c is None or rsp.expand(c) != u:
                        violation(["C19"], self.name, "learned-uri-does-not-round-trip", uri=u, **w)
                        return
        # determinism: another order, with repetitions
        rng = random.Random(len(uris) * 7919 + sum(map(len, uris)))
        sh = list(uris)
        rng.shuffle(sh)
        sh += sh[: 1 + len(sh) // 2]
        kw = {"cutoff": cutoff, "metaprefix": meta}
        if ctx["given_delimiters"] is not None:
            kw["delimiters"] = ctx["given_delimiters"]
        if csp is not None:
            kw["converter"] = kwargs.get("converter")
        import curies.discovery as disc

        k2, v2 = probe.outcome_of(disc.discover, sh, **kw)
        if k2 == "raise" or {r.prefix: r.uri_prefix for r in spec.snapshot(v2)} != got:
            violation(["C19"], self.name, "result-depends-on-order-or-repetition", reordered=sh,
                      second=v2 if k2 == "raise" else {r.prefix: r.uri_prefix for r in spec.snapshot(v2)}, **w)


def install(frame: FrameMonitor):
    import curies.api as a
    import curies.discovery as disc
    import curies.reconciliation as r

    probe.wrap_module_function(a, "chain", "chain", [ChainMonitor(), frame])
    probe.wrap_attr(a.Converter, "get_subconverter", "get_subconverter", [SubconverterMonitor(), frame], materialize_sub)
    probe.wrap_module_function(r, "remap_curie_prefixes", "remap_curie_prefixes", [RemapCurieMonitor(), frame])
    um = UriRemapMonitor()
    probe.wrap_module_function(r, "remap_uri_prefixes", "remap_uri_prefixes", [um, frame])
    probe.wrap_module_function(r, "rewire", "rewire", [um, frame])
    probe.wrap_module_function(disc, "discover", "discover", [DiscoverMonitor(), frame], materialize_discover)

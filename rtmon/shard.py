"""One shard of a workload: runs in its own process, writes a JSON result file.

usage: python -m rtmon.shard <ID> <tier> <seed> <shard> <nshards> <total_cases> <outfile> [<only_case>]
"""

from __future__ import annotations

import importlib
import json
import logging
import os
import random
import shutil
import sys
import tempfile
import time
import traceback
import warnings
from pathlib import Path


class Ctx:
    pass


def main(argv):
    prop, tier, seed, shard, nshards, total, outfile = argv[:7]
    seed, shard, nshards, total = int(seed), int(shard), int(nshards), int(total)
    only = int(argv[7]) if len(argv) > 7 else None
    t0 = time.time()
    warnings.simplefilter("ignore")
    logging.disable(logging.CRITICAL)
    result = {"property": prop, "shard": shard, "ok": False, "hashseed": os.environ.get("PYTHONHASHSEED")}
    tmp = Path(tempfile.mkdtemp(prefix=f"rtmon-{prop}-"))
    try:
        from . import cover, install, probe

        src = os.environ.get("RTMON_SRC", "/repo/src")
        cover.start(src)
        import curies.api as api

        result["curies_file"] = api.__file__
        if not os.path.realpath(api.__file__).startswith(os.path.realpath(src)):
            raise RuntimeError(f"curies imported from {api.__file__}, expected under {src}")
        if not install.install_all(force=True):
            raise RuntimeError("probes not installed")
        S = probe.S
        wl = importlib.import_module(f"rtmon.workloads.{prop.lower()}")
        _common = importlib.import_module("rtmon.workloads.common")
        ctx = Ctx()
        ctx.api, ctx.tmp, ctx.tier, ctx.seed, ctx.prop = api, tmp, tier, seed, prop
        ctx.shard, ctx.nshards = shard, nshards
        if hasattr(wl, "setup"):
            wl.setup(ctx)
        S.prop = prop
        if shard % 2 == 1:
            # an application with debug logging switched on: what is logged is nobody's business, what is answered is
            import logging as _logging

            lg = _logging.getLogger("curies")
            lg.addHandler(_logging.NullHandler())
            lg.setLevel(_logging.DEBUG)
            _logging.disable(_logging.NOTSET)  # (the harness silences logging process-wide elsewhere; not in these shards)
            _logging.getLogger().addHandler(_logging.NullHandler())
            lg.propagate = False
            S.counters["env:debug-logging-enabled"] += 1
        cases = [only] if only is not None else range(shard, total, nshards)
        n = 0
        for g in cases:
            rng = random.Random(f"{prop}/{seed}/{g}")
            S.begin_case({"case_index": g})
            try:
                wl.run_case(ctx, g, rng)
                _common.reask(random.Random(f"{prop}/{seed}/{g}/reask"))
            except Exception:  # noqa: BLE001  a crash of the driver is a broken check, not a verdict
                S.monitor_errors.append(f"driver crashed in case {g}: " + traceback.format_exc(limit=8))
                if len(S.monitor_errors) > 20:
                    break
            finally:
                S.end_case()
            n += 1
        if hasattr(wl, "finish"):
            S.begin_case({"case_index": "finish"})
            wl.finish(ctx)
            S.end_case()
        result.update(
            ok=True,
            cases=n,
            counters=dict(S.counters),
            bound=dict(S.bound),
            violations=S.violations,
            keys=sorted(S.case_keys),
            all_keys=len(S.all_keys),
            samples=S.samples,
            entered=sorted(cover.entered),
            monitor_errors=S.monitor_errors[:20],
        )
    except Exception:  # noqa: BLE001
        result["error"] = traceback.format_exc(limit=12)
    finally:
        shutil.rmtree(tmp, ignore_errors=True)
    result["wall_s"] = round(time.time() - t0, 3)
    with open(outfile, "w") as f:
        json.dump(result, f, ensure_ascii=True, default=repr)
    return 0


if __name__ == "__main__":
    sys.exit(main(sys.argv[1:]))

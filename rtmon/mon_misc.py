"""C20 (W3C validators) and the content-negotiation part of C18: always-on oracles."""

from __future__ import annotations

from . import probe
from .probe import Monitor, evaluated, out_of_domain, violation

# ---------------------------------------------------------------------------
# C20: hand-written recogniser, no regular expressions
# ---------------------------------------------------------------------------

_LETTERS = "abcdefghijklmnopqrstuvwxyzABCDEFGHIJKLMNOPQRSTUVWXYZ"
_DIGITS = "0123456789"


def spec_is_ncname(s: str) -> bool:
    if not s:
        return False
    if s[0] not in _LETTERS and s[0] != "_":
        return False
    return all(c in _LETTERS or c in _DIGITS or c in "._-" for c in s[1:])


def spec_is_reference(r: str) -> bool:
    return not any(c.isspace() for c in r) and not r.startswith("//")


def spec_is_w3c_curie(s: str) -> bool:
    if "[" in s or "]" in s:
        return False
    if not s or all(c.isspace() for c in s):
        return False
    if any(c.isspace() for c in s):
        return False
    i = s.find(":")
    if i < 0:
        return spec_is_reference(s)
    p, r = s[:i], s[i + 1:]
    if p == "":
        return spec_is_reference(r)
    return spec_is_ncname(p) and spec_is_reference(r)


def w3c_mechanism(fn, s, want, got):
    if got is True and want is False:
        if s.endswith("\n") and (spec_is_ncname(s[:-1]) if fn == "is_w3c_prefix" else spec_is_w3c_curie(s[:-1])):
            return "trailing-newline-accepted"
        if any(c.isspace() for c in s):
            return "whitespace-accepted"
        if "//" in s:
            return "double-slash-reference-accepted"
        return "accepts-string-outside-grammar"
    return "rejects-string-inside-grammar"


class W3CMonitor(Monitor):
    name = "w3c"

    def pre(self, fn, args, kwargs):
        s = args[0] if args else next(iter(kwargs.values()), None)
        if not isinstance(s, str) or len(args) + len(kwargs) != 1:
            out_of_domain(f"{self.name}:{fn}", "argtype")
            return None
        return {"s": s}

    def post(self, fn, ctx, outcome, args, kwargs):
        s = ctx["s"]
        want = spec_is_ncname(s) if fn == "is_w3c_prefix" else spec_is_w3c_curie(s)
        evaluated(f"{self.name}:{fn}")
        evaluated("prop:C20")
        if outcome != ("ret", want):
            got = outcome[1] if outcome[0] == "ret" else outcome[1]
            violation(["C20"], f"{self.name}:{fn}", w3c_mechanism(fn, s, want, got),
                      function=fn, input=s, expected=want, observed=got)


# ---------------------------------------------------------------------------
# C18: Accept header (RFC 7231 section 5.3.2, restated)
# ---------------------------------------------------------------------------

CANON = {
    "application/sparql-results+json": "application/sparql-results+json",
    "application/sparql-results+xml": "application/sparql-results+xml",
    "application/sparql-results+csv": "application/sparql-results+csv",
    "application/json": "application/sparql-results+json",
    "text/json": "application/sparql-results+json",
    "application/xml": "application/sparql-results+xml",
    "text/xml": "application/sparql-results+xml",
    "text/csv": "application/sparql-results+csv",
}
DEFAULT = "application/sparql-results+xml"
_TCHAR = set("!#$%&'*+-.^_`|~" + _LETTERS + _DIGITS)


def _token(s):
    return bool(s) and all(c in _TCHAR for c in s)


def _qvalue(s):
    """RFC 7231 qvalue -> float, or None if malformed."""
    if s in ("0", "1"):
        return float(s)
    if len(s) < 2 or s[1] != "." or len(s) > 5 or s[0] not in "01":
        return None
    frac = s[2:]
    if not all(c in _DIGITS for c in frac):
        return None
    if s[0] == "1" and any(c != "0" for c in frac):
        return None
    return float(s[0] + "." + (frac or "0"))


def parse_accept(header: str):
    """[(media type, q)] for a header in the modelled grammar, else None.

    media-range *( OWS ";" OWS "q=" qvalue ), elements separated by OWS "," OWS; OWS = spaces / tabs.
    Wildcards, media-type parameters, accept-extensions and repeated media types are outside the grammar the property
    defines behaviour for.  q=0 is a well-formed weight (the lowest); see negotiate().
    """
    out = []
    for element in header.split(","):
        element = element.strip(" \t")
        if not element:
            return None
        parts = [p.strip(" \t") for p in element.split(";")]
        mt = parts[0]
        if mt.count("/") != 1 or "*" in mt:
            return None
        t, st = mt.split("/")
        if not _token(t) or not _token(st) or mt != mt.lower():
            return None
        q = 1.0
        if len(parts) > 2:
            return None
        if len(parts) == 2:
            if not parts[1].startswith("q="):
                return None
            q = _qvalue(parts[1][2:])
            if q is None:
                return None
        out.append((mt, q))
    if len({m for m, _ in out}) != len(out):
        return None
    return out


def negotiate(header):
    """Set of acceptable answers (several when supported types tie for the highest q)."""
    if not header:
        return {DEFAULT}
    parsed = parse_accept(header)
    if parsed is None:
        return None
    sup = [(CANON[m], q) for m, q in parsed if m in CANON]
    if not sup:
        return {DEFAULT}
    best = max(q for _, q in sup)
    if best == 0.0:
        # every supported type is marked "not acceptable" (RFC 7231) - "the highest-q supported type" and "the default"
        # are both defensible readings: not decided here
        return None
    return {m for m, q in sup if q == best}


class HeaderMonitor(Monitor):
    name = "handle_header"

    def pre(self, fn, args, kwargs):
        a, kw = list(args), dict(kwargs)
        header = a.pop(0) if a else kw.pop("header", None)
        if a or kw or not (header is None or isinstance(header, str)):
            out_of_domain(self.name, "signature")
            return None
        acc = negotiate(header)
        if acc is None:
            out_of_domain(self.name, "outside-grammar")
            return None
        return {"header": header, "acceptable": acc}

    def post(self, fn, ctx, outcome, args, kwargs):
        evaluated(self.name)
        evaluated("prop:C18")
        header, acc = ctx["header"], ctx["acceptable"]
        kind, val = outcome
        if kind == "raise" or val not in acc:
            mech = "wrong-media-type"
            if header and (" " in header or "\t" in header):
                # does the same header without optional whitespace negotiate correctly?
                import curies.mapping_service.utils as mu

                k2, v2 = probe.outcome_of(mu.handle_header, header.replace(" ", "").replace("\t", ""))
                if k2 == "ret" and v2 in acc:
                    mech = "optional-whitespace-in-accept-header"
            violation(["C18"], self.name, mech, header=header, expected=sorted(acc),
                      observed=val if kind == "ret" else {"raised": type(val).__name__, "message": str(val)[:200]})


def install():
    import curies.w3c as w3c

    wm = W3CMonitor()
    probe.wrap_module_function(w3c, "is_w3c_prefix", "is_w3c_prefix", [wm])
    probe.wrap_module_function(w3c, "is_w3c_curie", "is_w3c_curie", [wm])
    try:
        import curies.mapping_service.utils as mu
        import curies.mapping_service.api  # noqa: F401  (binds handle_header by name)
    except Exception:  # noqa: BLE001
        probe.S.counters["mapping-service-import-failed"] += 1
        return
    probe.wrap_module_function(mu, "handle_header", "handle_header", [HeaderMonitor()])

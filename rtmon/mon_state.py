"""State monitors: C04 (construction), C05 (add_record/add_prefix invariant hook), C10 (frame)."""

from __future__ import annotations

import weakref

from . import probe, spec
from .mon_core import api, domain_spec, is_plain_converter
from .probe import S, Monitor, evaluated, out_of_domain, outcome_of, violation


def _fold(s, cs):
    return s if cs else s.casefold()


def structural_diffs(conv, recs=None):
    """C04/C05 invariants of a live converter; returns a list of human-readable differences."""
    recs = spec.snapshot(conv) if recs is None else recs
    out = []
    if not spec.is_unique(recs):
        out.append({"uniqueness": [c for c in spec.clashes(recs)]})
    out.extend(spec.index_diffs(conv, recs))
    sp = spec.SpecConverter(recs, conv.delimiter)
    bimap, rbimap = dict(conv.bimap), dict(conv.reverse_bimap)
    if bimap != {r.prefix: r.uri_prefix for r in recs} or len(bimap) != len(recs):
        out.append({"bimap": bimap})
    if rbimap != {v: k for k, v in bimap.items()} or len(rbimap) != len(recs):
        out.append({"reverse_bimap": rbimap})
    for syn in (False, True):
        if conv.get_prefixes(include_synonyms=syn) != sp.prefixes(syn):
            out.append({"get_prefixes": syn})
        if conv.get_uri_prefixes(include_synonyms=syn) != sp.uri_prefixes(syn):
            out.append({"get_uri_prefixes": syn})
    return out


# ---------------------------------------------------------------------------
# C04
# ---------------------------------------------------------------------------


def materialize_init(args, kwargs):
    """Converter.__init__(self, records, ...): turn a one-shot iterable into a list."""
    if len(args) >= 2:
        if not isinstance(args[1], (list, tuple)):
            args = (args[0], probe.one_shot_or_list(args[1]), *args[2:])
    elif "records" in kwargs and not isinstance(kwargs["records"], (list, tuple)):
        kwargs = dict(kwargs)
        kwargs["records"] = probe.one_shot_or_list(kwargs["records"])
    return args, kwargs


class ConstructMonitor(Monitor):
    name = "construct"

    def pre(self, fn, args, kwargs):
        records = probe.items_of(args[1] if len(args) >= 2 else kwargs.get("records"))
        Record = api().Record
        if records is None or not all(isinstance(r, Record) for r in records):
            out_of_domain(self.name, "not-records")
            return {"skip": True}
        recs = tuple(spec.rec_of(r) for r in records)
        return {
            "recs": recs,
            "strict": kwargs.get("strict", True) is not False,
            "self_clash": any(spec.self_clash(r) for r in recs),
        }

    def post(self, fn, ctx, outcome, args, kwargs):
        conv = args[0]
        kind, val = outcome
        if kind == "ret":
            S.registry.append(weakref.ref(conv))
            if len(S.registry) > 64:
                S.registry = [w for w in S.registry if w() is not None][-32:]
        if ctx.get("skip") or not ctx["strict"] or ctx["self_clash"]:
            if not ctx.get("skip"):
                out_of_domain(self.name, "non-strict")
            return
        a = api()
        recs = ctx["recs"]
        cl = spec.clashes(recs)
        uri_cl = {x for side, _, _, x in cl if side == "uri"}
        cur_cl = {x for side, _, _, x in cl if side == "curie"}
        evaluated(self.name)
        evaluated("prop:C04")
        w = {"records": [spec.rec_dict(r) for r in recs]}
        if kind == "raise":
            if not cl:
                violation(["C04"], self.name, "rejects-clash-free-records", observed=val, **w)
                return
            want_t = a.DuplicateURIPrefixes if uri_cl else a.DuplicatePrefixes
            other_t = a.DuplicatePrefixes if uri_cl else a.DuplicateURIPrefixes
            if not isinstance(val, want_t) or isinstance(val, other_t):
                violation(
                    ["C04"], self.name, "wrong-duplicate-error-type",
                    expected=want_t.__name__, observed=val, uri_clashes=sorted(uri_cl),
                    curie_clashes=sorted(cur_cl), **w,
                )
                return
            want = uri_cl if uri_cl else cur_cl
            side = "uri" if uri_cl else "curie"
            dups = getattr(val, "duplicates", None) or []
            got = {d.prefix for d in dups}
            bad = []
            listed = set()
            f = spec.all_u if side == "uri" else spec.all_p
            for d in dups:
                r1, r2 = spec.rec_of(d.record_1), spec.rec_of(d.record_2)
                if not (d.prefix in f(r1) and d.prefix in f(r2) and d.record_1 is not d.record_2):
                    bad.append(d.prefix)
                listed.update({spec.norm(r1), spec.norm(r2)})
            # "listing the clashing records": every record involved in a clash on that side is named, every summary
            # is a real clash, and no string is reported that does not clash (how many summaries per pair is not promised)
            involved = {spec.norm(recs[i]) for s_, i, j, x in cl if s_ == side for i in (i, j)}
            if bad or not got <= want or not involved <= listed:
                violation(
                    ["C04"], self.name, "duplicate-summary-incomplete-or-wrong",
                    clashing_strings=sorted(want), reported_strings=sorted(got), unreal=bad,
                    clashing_records_not_listed=[list(map(probe.jsonable, x)) for x in involved - listed], **w,
                )
            return
        # constructed
        if cl:
            violation(
                ["C04"], self.name, "accepts-clashing-records",
                uri_clashes=sorted(uri_cl), curie_clashes=sorted(cur_cl), **w,
            )
            return
        after = spec.snapshot(conv)
        if sorted(map(spec.norm, after), key=repr) != sorted(map(spec.norm, recs), key=repr):
            violation(["C04"], self.name, "records-not-those-given", observed=[spec.rec_dict(r) for r in after], **w)
            return
        diffs = structural_diffs(conv, after)
        if diffs:
            violation(["C04", "C05"], self.name, "lookup-structures-disagree-with-records", diffs=diffs, **w)


# ---------------------------------------------------------------------------
# C05
# ---------------------------------------------------------------------------


def model_matches(recs, new, cs):
    """Indexes of existing records sharing a (case-folded) CURIE or URI prefix with `new`."""
    np_ = {_fold(x, cs) for x in spec.all_p(new)}
    nu = {_fold(x, cs) for x in spec.all_u(new)}
    return [
        i
        for i, r in enumerate(recs)
        if np_ & {_fold(x, cs) for x in spec.all_p(r)} or nu & {_fold(x, cs) for x in spec.all_u(r)}
    ]


def full_state(conv):
    return (spec.snapshot(conv), spec.live_indexes(conv))


class AddMonitor(Monitor):
    """Invariant at the quiescent point after add_record / add_prefix returns or raises."""

    name = "add-hook"

    def pre(self, fn, args, kwargs):
        conv = args[0]
        mon = f"{self.name}:{fn}"
        if S.depth > 0:
            # a registration made by the library itself (chain -> add_record, add_prefix -> add_record) on a large
            # converter: the hook costs O(n) and chain makes n such calls; only the outermost calls are judged there
            try:
                if len(conv.records) > 48:
                    out_of_domain(mon, "nested-call-on-a-large-converter")
                    return None
            except Exception:  # noqa: BLE001
                pass
        sp = domain_spec(conv, mon)
        if sp is None:
            return None
        if spec.index_diffs(conv, sp.recs):
            out_of_domain(mon, "inconsistent-at-entry")
            return None
        ctx = {"before": full_state(conv), "sp": sp}
        if fn == "add_record":
            a = list(args[1:])
            kw = dict(kwargs)
            record = a.pop(0) if a else kw.pop("record", None)
            cs = a.pop(0) if a else kw.pop("case_sensitive", True)
            merge = a.pop(0) if a else kw.pop("merge", False)
            if not isinstance(record, api().Record) or a or kw:
                out_of_domain(mon, "signature")
                return None
            ctx.update(new=spec.rec_of(record), cs=bool(cs), merge=bool(merge))
            if spec.self_clash(ctx["new"]):
                out_of_domain(mon, "self-clash")
                return None
        else:
            # add_prefix(prefix, uri_prefix, prefix_synonyms=None, uri_prefix_synonyms=None, *, case_sensitive=True,
            # merge=False) is add_record of the record its arguments spell: judged by the same model with the flags the
            # CALLER gave (the nested add_record only sees what add_prefix passed on - seed C05-Q)
            a = list(args[1:])
            kw = dict(kwargs)
            prefix = a.pop(0) if a else kw.pop("prefix", None)
            uri_prefix = a.pop(0) if a else kw.pop("uri_prefix", None)
            psyn = a.pop(0) if a else kw.pop("prefix_synonyms", None)
            usyn = a.pop(0) if a else kw.pop("uri_prefix_synonyms", None)
            cs, merge = kw.pop("case_sensitive", True), kw.pop("merge", False)
            try:
                psyn_t, usyn_t = tuple(psyn or ()), tuple(usyn or ())
                plain = (type(prefix) is str and type(uri_prefix) is str and not a and not kw and isinstance(cs, bool) and isinstance(merge, bool)
                         and all(type(x) is str for x in psyn_t + usyn_t))
            except Exception:  # noqa: BLE001
                plain = False
            if plain:
                new = spec.Rec(prefix, uri_prefix, psyn_t, usyn_t, None)
                if not spec.self_clash(new):
                    ctx.update(new=new, cs=cs, merge=merge)
        return ctx

    def post(self, fn, ctx, outcome, args, kwargs):
        conv = args[0]
        mon = f"{self.name}:{fn}"
        kind, val = outcome
        before_recs, before_idx = ctx["before"]
        after_recs, after_idx = full_state(conv)
        evaluated(mon)
        evaluated("prop:C05")
        w = {"operation": fn, "before": [spec.rec_dict(r) for r in before_recs], "delimiter": conv.delimiter}
        if fn == "add_record":
            w.update(new=spec.rec_dict(ctx["new"]), case_sensitive=ctx["cs"], merge=ctx["merge"])
        else:
            w.update(arguments=[list(args[1:]), dict(kwargs)])
        if kind == "raise":
            if not isinstance(val, ValueError):
                violation(["C05"], mon, "rejection-is-not-a-ValueError", observed=val, **w)
            if after_recs != before_recs or after_idx != before_idx:
                violation(
                    ["C05"], mon, "rejected-call-changed-state",
                    after=[spec.rec_dict(r) for r in after_recs], **w,
                )
            if "new" in ctx:
                m = model_matches(before_recs, ctx["new"], ctx["cs"])
                if not (len(m) > 1 or (len(m) == 1 and not ctx["merge"])):
                    violation(["C05"], mon, "rejects-addable-record", matches=m, observed=val, **w)
            return
        # success: one-owner uniqueness and index agreement, whatever the operation was
        diffs = structural_diffs(conv, after_recs)
        if diffs:
            violation(
                ["C05"], mon, "lookup-structures-disagree-with-records", diffs=diffs,
                after=[spec.rec_dict(r) for r in after_recs], **w,
            )
        if fn != "add_record":
            # add_prefix: the strings as the caller gave them must now resolve, all to one record
            a = list(args[1:])
            kw = dict(kwargs)
            prefix = a.pop(0) if a else kw.get("prefix")
            uri_prefix = a.pop(0) if a else kw.get("uri_prefix")
            psyn = a.pop(0) if a else kw.get("prefix_synonyms")
            usyn = a.pop(0) if a else kw.get("uri_prefix_synonyms")
            if isinstance(prefix, str) and isinstance(uri_prefix, str):
                asp = spec.SpecConverter(after_recs, conv.delimiter)
                owners = set()
                missing = []
                for p_ in [prefix, *(psyn or [])]:
                    o = asp.prefix_owner(p_) if isinstance(p_, str) else None
                    (owners.add(o.uri_prefix) if o else missing.append(p_))
                for u_ in [uri_prefix, *(usyn or [])]:
                    o = next((r for r in after_recs if isinstance(u_, str) and u_ in spec.all_u(r)), None)
                    (owners.add(o.uri_prefix) if o else missing.append(u_))
                if missing or len(owners) != 1:
                    violation(["C05"], mon, "added-strings-do-not-resolve-to-one-record", not_registered=missing,
                              owners=sorted(owners), after=[spec.rec_dict(r) for r in after_recs], **w)
                    return
            if "new" not in ctx:
                return
            w.update(new=spec.rec_dict(ctx["new"]), case_sensitive=ctx["cs"], merge=ctx["merge"])
        new, cs, merge = ctx["new"], ctx["cs"], ctx["merge"]
        m = model_matches(before_recs, new, cs)
        w["after"] = [spec.rec_dict(r) for r in after_recs]
        if len(m) > 1 or (len(m) == 1 and not merge):
            violation(["C05"], mon, "accepts-record-that-must-be-rejected", matches=m, **w)
            return
        want = [spec.norm(r) for r in before_recs]
        if not m:
            want.append(spec.norm(new))
            target = new
        else:
            old = before_recs[m[0]]
            merged = spec.Rec(
                old.prefix,
                old.uri_prefix,
                tuple(old.psyn) + tuple(x for x in dict.fromkeys(spec.all_p(new)) if x not in spec.all_p(old)),
                tuple(old.usyn) + tuple(x for x in dict.fromkeys(spec.all_u(new)) if x not in spec.all_u(old)),
                old.pattern,
            )
            want[m[0]] = spec.norm(merged)
            target = merged
        got = [spec.norm(r) for r in after_recs]
        if sorted(got, key=repr) != sorted(want, key=repr):
            violation(
                ["C05"], mon, "merge-or-append-result-differs-from-model" if m else "append-result-differs-from-model",
                expected=[list(map(probe.jsonable, x)) for x in want], **w,
            )
            return
        # every prefix / URI prefix of the new record resolves to that single record
        s2p = after_idx.get("synonym_to_prefix")
        bad = [p for p in spec.all_p(new) if (s2p is not None and s2p.get(p) != target.prefix)
               or after_idx["prefix_map"].get(p) != target.uri_prefix]
        bad += [u for u in spec.all_u(new) if after_idx["reverse_prefix_map"].get(u) != target.prefix
                or after_idx["trie"].get(u) != target.prefix]
        if bad:
            violation(["C05"], mon, "new-strings-do-not-resolve-to-one-record", unresolved=bad, **w)


# ---------------------------------------------------------------------------
# C10
# ---------------------------------------------------------------------------

DERIVATIONS = ("chain", "get_subconverter", "remap_curie_prefixes", "remap_uri_prefixes", "rewire", "discover")


def probe_queries(recs, d):
    qs = []
    for r in recs[:8]:
        for p in spec.all_p(r)[:4]:
            qs.append(("expand", p + d + "x"))
            qs.append(("expand_all", p + d + "x"))
            qs.append(("standardize_prefix", p))
        for u in spec.all_u(r)[:4]:
            qs.append(("compress", u + "x"))
            qs.append(("standardize_uri", u + "x"))
    return qs[:80]


def fingerprint(conv, queries):
    fp = {
        "records": [spec.rec_dict(r) for r in spec.snapshot(conv)],
        "delimiter": conv.delimiter,
        "indexes": spec.live_indexes(conv),
        "bimap": dict(conv.bimap),
        "reverse_bimap": dict(conv.reverse_bimap),
    }
    for syn in (False, True):
        fp[f"get_prefixes[{syn}]"] = sorted(conv.get_prefixes(include_synonyms=syn))
        fp[f"get_uri_prefixes[{syn}]"] = sorted(conv.get_uri_prefixes(include_synonyms=syn))
    ans = {}
    for meth, q in queries:
        kind, val = outcome_of(getattr(conv, meth), q)
        ans[f"{meth}({q!r})"] = probe.jsonable(val) if kind == "ret" else "raises " + type(val).__name__
    fp["answers"] = ans
    return fp


def _collect_converters(obj, out, depth=0):
    base = api().Converter
    if isinstance(obj, base):
        out.append(obj)
    elif isinstance(obj, (list, tuple)) and depth < 2:
        for o in obj[:16]:
            _collect_converters(o, out, depth + 1)


class FrameMonitor(Monitor):
    """Nobody but the declared target may change across a deriving / mutating call."""

    name = "frame"
    NESTED = "nested"

    def __init__(self):
        self.active = 0
        S.case_hooks.append(self.reset)

    def reset(self):
        self.active = 0

    def pre(self, fn, args, kwargs):
        # only the outermost monitored operation is a frame: chain -> add_record is reported as chain
        self.active += 1
        if self.active > 1:
            return self.NESTED
        target = args[0] if fn in ("add_record", "add_prefix") else None
        watched = []
        _collect_converters(list(args) + list(kwargs.values()), watched)
        for w in S.registry[-24:]:
            c = w()
            if c is not None:
                watched.append(c)
        seen, snaps = set(), []
        for c in watched:
            if c is target or id(c) in seen or id(c) in S.tainted:
                continue
            seen.add(id(c))
            try:
                recs = spec.snapshot(c)
                if len(recs) > 64:
                    continue
                qs = probe_queries(recs, c.delimiter)
                snaps.append((c, qs, fingerprint(c, qs)))
            except Exception:  # noqa: BLE001  (half-built objects in the registry)
                continue
        if not snaps:
            out_of_domain(f"{self.name}:{fn}", "nothing-to-watch")
        return snaps

    def post(self, fn, ctx, outcome, args, kwargs):
        self.active = max(0, self.active - 1)
        if ctx is self.NESTED:
            return
        mon = f"{self.name}:{fn}"
        is_arg = []
        _collect_converters(list(args) + list(kwargs.values()), is_arg)
        arg_ids = {id(c) for c in is_arg}
        if fn in DERIVATIONS and outcome[0] == "ret" and isinstance(outcome[1], api().Converter):
            evaluated(f"{mon}:new-object")
            if id(outcome[1]) in arg_ids:
                # "return a new converter": handing back the input makes every later change of the result a change of the input
                violation(["C10"], mon, f"{fn}-returns-its-input-instead-of-a-new-converter", operation=fn,
                          arguments=_args_witness(args, kwargs))
        for conv, qs, before in ctx:
            evaluated(mon)
            evaluated("prop:C10")
            after = fingerprint(conv, qs)
            if after != before:
                changed = [k for k in before if before[k] != after[k]]
                S.tainted.add(id(conv))
                role = "input" if id(conv) in arg_ids else "bystander (shares records with a converter involved)"
                mech = (
                    f"{fn}-alters-{'input' if id(conv) in arg_ids else 'other-converter'}"
                )
                violation(
                    ["C10"], mon, mech, operation=fn, role=role, changed_fields=changed,
                    records_before=before["records"], records_after=after["records"],
                    stale_answers={k: [before["answers"][k], after["answers"][k]] for k in before["answers"]
                                   if before["answers"][k] != after["answers"].get(k)},
                    outcome="raised " + type(outcome[1]).__name__ if outcome[0] == "raise" else "returned",
                    arguments=_args_witness(args, kwargs),
                )


def _args_witness(args, kwargs):
    base = api().Converter

    def conv(o, depth=0):
        if isinstance(o, base):
            return {"converter": [spec.rec_dict(r) for r in spec.snapshot(o)]}
        if isinstance(o, (list, tuple)) and depth < 2:
            return [conv(x, depth + 1) for x in o[:8]]
        if isinstance(o, api().Record):
            return {"record": spec.rec_dict(spec.rec_of(o))}
        return probe.jsonable(o)

    return {"args": [conv(a) for a in args], "kwargs": {k: conv(v) for k, v in kwargs.items()}}


def install():
    a = api()
    cm, am, fm = ConstructMonitor(), AddMonitor(), FrameMonitor()
    probe.wrap_attr(a.Converter, "__init__", "Converter.__init__", [cm], materialize_init)
    probe.wrap_attr(a.Converter, "add_record", "add_record", [am, fm])
    probe.wrap_attr(a.Converter, "add_prefix", "add_prefix", [am, fm])
    return cm, am, fm

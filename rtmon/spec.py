"""Reference models: deliberately naive, independent of the code under test.

Everything here works on plain data (tuples / dicts of strings) captured from the
live objects *before* a monitored call; no trie, no derived dictionaries, no regular
expressions.
"""

from __future__ import annotations

import itertools
from collections import namedtuple

Rec = namedtuple("Rec", "prefix uri_prefix psyn usyn pattern")


def rec_of(record) -> Rec:
    """Plain-data copy of a curies.Record."""
    return Rec(
        record.prefix,
        record.uri_prefix,
        tuple(record.prefix_synonyms),
        tuple(record.uri_prefix_synonyms),
        record.pattern,
    )


def snapshot(converter) -> tuple:
    return tuple(rec_of(r) for r in converter.records)


def rec_dict(r: Rec) -> dict:
    return {
        "prefix": r.prefix,
        "uri_prefix": r.uri_prefix,
        "prefix_synonyms": list(r.psyn),
        "uri_prefix_synonyms": list(r.usyn),
        "pattern": r.pattern,
    }


def all_p(r: Rec) -> list:
    return [r.prefix, *r.psyn]


def all_u(r: Rec) -> list:
    return [r.uri_prefix, *r.usyn]


def norm(r: Rec):
    """Order-insensitive identity of a record (synonym lists as sets, falsy pattern = absent)."""
    return (r.prefix, r.uri_prefix, frozenset(r.psyn), frozenset(r.usyn), r.pattern or None)


def clashes(recs):
    """All cross-record clashes: (side, i, j, string)."""
    out = []
    for (i, a), (j, b) in itertools.combinations(enumerate(recs), 2):
        for x in all_u(a):
            if x in all_u(b):
                out.append(("uri", i, j, x))
        for x in all_p(a):
            if x in all_p(b):
                out.append(("curie", i, j, x))
    return out


def self_clash(r: Rec) -> bool:
    return r.prefix in r.psyn or r.uri_prefix in r.usyn


def is_unique(recs) -> bool:
    ps = [x for r in recs for x in set(all_p(r))]
    us = [x for r in recs for x in set(all_u(r))]
    return len(ps) == len(set(ps)) and len(us) == len(set(us))


class SpecConverter:
    """Answers every query by definition, by linear scan over the records."""

    def __init__(self, recs, delimiter=":"):
        self.recs = tuple(recs)
        self.d = delimiter
        self.unique = is_unique(self.recs)

    # -- ownership -------------------------------------------------------
    def uri_matches(self, u):
        """All (uri prefix, record) pairs whose prefix is a prefix of u."""
        return [(p, r) for r in self.recs for p in all_u(r) if u.startswith(p)]

    def uri_owner(self, u):
        best = None
        for p, r in self.uri_matches(u):
            if best is None or len(p) > len(best[0]):
                best = (p, r)
        return best

    def prefix_owner(self, p):
        for r in self.recs:
            if p == r.prefix or p in r.psyn:
                return r
        return None

    # -- primitive parsers -------------------------------------------------
    def parse_uri(self, u):
        b = self.uri_owner(u)
        return None if b is None else (b[1].prefix, u[len(b[0]):])

    def split(self, c):
        i = c.find(self.d)
        if i < 0:
            return None
        return c[:i], c[i + len(self.d):]

    def parse_curie(self, c):
        s = self.split(c)
        if s is None:
            return None
        r = self.prefix_owner(s[0])
        return None if r is None else (r.prefix, s[1])

    # -- derived -----------------------------------------------------------
    def fmt(self, p, i):
        return p + self.d + i

    def compress(self, u):
        x = self.parse_uri(u)
        return None if x is None else self.fmt(*x)

    def expand_pair(self, p, i):
        r = self.prefix_owner(p)
        return None if r is None else r.uri_prefix + i

    def expand(self, c):
        s = self.split(c)
        return None if s is None else self.expand_pair(*s)

    def expand_pair_all(self, p, i):
        r = self.prefix_owner(p)
        return None if r is None else [r.uri_prefix + i] + [u + i for u in r.usyn]

    def expand_all(self, c):
        s = self.split(c)
        return None if s is None else self.expand_pair_all(*s)

    def parse(self, s):
        x = self.parse_uri(s)
        return x if x is not None else self.parse_curie(s)

    def compress_or_standardize(self, s):
        x = self.parse(s)
        return None if x is None else self.fmt(*x)

    def expand_or_standardize(self, s):
        x = self.parse(s)
        return None if x is None else self.prefix_owner(x[0]).uri_prefix + x[1]

    def standardize_prefix(self, p):
        r = self.prefix_owner(p)
        return None if r is None else r.prefix

    def standardize_curie(self, c):
        x = self.parse_curie(c)
        return None if x is None else self.fmt(*x)

    def standardize_uri(self, u):
        x = self.parse_uri(u)
        return None if x is None else self.prefix_owner(x[0]).uri_prefix + x[1]

    # -- structure -----------------------------------------------------------
    def prefix_free(self) -> bool:
        us = [u for r in self.recs for u in all_u(r)]
        return not any(a != b and b.startswith(a) for a in us for b in us)

    def prefixes(self, syn=False):
        return {x for r in self.recs for x in (all_p(r) if syn else [r.prefix])}

    def uri_prefixes(self, syn=False):
        return {x for r in self.recs for x in (all_u(r) if syn else [r.uri_prefix])}

    # -- what the five lookup structures must contain ------------------------
    def derived_indexes(self):
        return {
            "prefix_map": {p: r.uri_prefix for r in self.recs for p in all_p(r)},
            "synonym_to_prefix": {p: r.prefix for r in self.recs for p in all_p(r)},
            "reverse_prefix_map": {u: r.prefix for r in self.recs for u in all_u(r)},
            "trie": {u: r.prefix for r in self.recs for u in all_u(r)},
            "pattern_map": {r.prefix: r.pattern for r in self.recs if r.pattern},
        }


_SPEC_CACHE: dict = {}


def spec_for(recs: tuple, delimiter: str) -> SpecConverter:
    key = (recs, delimiter)
    s = _SPEC_CACHE.get(key)
    if s is None:
        if len(_SPEC_CACHE) > 4096:
            _SPEC_CACHE.clear()
        s = _SPEC_CACHE[key] = SpecConverter(recs, delimiter)
    return s


def live_indexes(converter) -> dict:
    """The lookup structures of a live converter, as plain dicts.

    prefix_map, reverse_prefix_map, trie and pattern_map are documented public attributes; synonym_to_prefix is an
    undeclared one and is compared only while it exists (a refactoring may drop it without breaking any property).
    """
    out = {
        "prefix_map": dict(converter.prefix_map),
        "reverse_prefix_map": dict(converter.reverse_prefix_map),
        "trie": dict(converter.trie.items()),
        "pattern_map": dict(converter.pattern_map),
    }
    s2p = getattr(converter, "synonym_to_prefix", None)
    if isinstance(s2p, dict):
        out["synonym_to_prefix"] = dict(s2p)
    return out


def index_diffs(converter, recs=None) -> list:
    """Differences between the live lookup structures and what `records` denote."""
    recs = snapshot(converter) if recs is None else recs
    want = SpecConverter(recs, converter.delimiter).derived_indexes()
    have = live_indexes(converter)
    out = []
    for name in want:
        if name not in have:
            continue
        if want[name] != have[name]:
            w, h = want[name], have[name]
            out.append(
                {
                    "index": name,
                    "missing": {k: v for k, v in w.items() if k not in h},
                    "extra": {k: v for k, v in h.items() if k not in w},
                    "wrong": {k: [h[k], w[k]] for k in w if k in h and h[k] != w[k]},
                }
            )
    return out


# --------------------------------------------------------------------------
# chain fold model (C09)
# --------------------------------------------------------------------------

def chain_fold(convs_recs, case_sensitive=True):
    """Fold the records of several converters, in order, into groups.

    Returns (groups, None) or (None, bridging_record).  A group is a dict with ordered
    lists "p" (CURIE prefixes, first = canonical) and "u" (URI prefixes) and "pattern".
    """
    f = (lambda s: s) if case_sensitive else (lambda s: s.casefold())
    groups = []
    for recs in convs_recs:
        for r in recs:
            rp = {f(x) for x in all_p(r)}
            ru = {f(x) for x in all_u(r)}
            hit = [
                g
                for g in groups
                if rp & {f(x) for x in g["p"]} or ru & {f(x) for x in g["u"]}
            ]
            if len(hit) > 1:
                return None, r
            if hit:
                g = hit[0]
                for x in all_p(r):
                    if x not in g["p"]:
                        g["p"].append(x)
                for x in all_u(r):
                    if x not in g["u"]:
                        g["u"].append(x)
            else:
                groups.append({"p": list(dict.fromkeys(all_p(r))), "u": list(dict.fromkeys(all_u(r))), "pattern": r.pattern})
    return groups, None

"""C05 Incrementally built converters stay consistent with their own records."""

from __future__ import annotations

from .. import gen, probe, spec
from ..probe import violation
from .common import call

PROP = "C05"
LEVEL = "exploration"
CASES = {"quick": 700, "thorough": 60000}
SHARDS = {"quick": 8, "thorough": 16}
ANCHORS = [
    "api.py:Converter._match_record", "api.py:Converter.add_record", "api.py:Converter._merge",
    "api.py:Converter._index", "api.py:Converter.add_prefix", "api.py:_eq", "api.py:_in",
]
DECIDING = ["add-hook:add_record", "add-hook:add_prefix", "fresh-differential"]
RULE = (
    "bounded world: every history of at most 2 (quick) / 3 (thorough) add_record calls over 8 records x case_sensitive x "
    "merge on a fixed two-record converter (coverage.small_world_exhaustive). Random part: "
    "case = a history of 1-8 add_record / add_prefix operations (all merge x case_sensitive combinations) on a random "
    "strict starting converter with any delimiter; each new record is fresh, or overlaps an existing record on the CURIE "
    "side, the URI side, both, only up to letter case, or matches two existing records. After every return or raise "
    "the invariant hook compares the five lookup structures (prefix_map, synonym_to_prefix, reverse_prefix_map, trie, "
    "pattern_map) with what `records` denote, checks one-owner uniqueness, that a rejection is a ValueError that changed "
    "nothing, and that success appended or merged exactly as specified (canonical prefix, URI prefix and pattern kept, "
    "everything new a synonym); then the driver asks the incremental converter and a converter freshly constructed from "
    "copies of its records the same probe queries - those derived from the current records plus a pool of strings "
    "that were already asked before the records making them resolvable arrived - and compares the answers. key = multiset of step outcomes in the "
    "history (append / merge / reject-no-merge / reject-multi, with case-insensitive marker); non-trivial = the history "
    "contains at least one merge or one rejection."
    ' The at-scale histories also compare the record returned by get_record and the answer of expand_pair_all with a fresh converter (round 21).'
)
ASSUMPTIONS = ["matching rule restated in rtmon.mon_state.model_matches (shared CURIE or URI prefix, case-folded on request)"]


def new_record(rng, recs, d):
    kind = rng.choice(["fresh", "curie", "uri", "both", "case", "two", "syn-only", "same-record-more-names"])
    fresh_p = [p + rng.choice("XYZ") + str(rng.randint(0, 9)) for p in ("n", "N", "m")]
    fresh_u = ["http://new/" + rng.choice("abAB") + rng.choice("_/#"), "new:" + rng.choice("xyz"), "http://x/a_" + rng.choice("nN")]
    p, u = rng.choice(fresh_p), rng.choice(fresh_u)
    ps, us = [], []
    if rng.random() < 0.4:
        ps.append(rng.choice(fresh_p) + "s")
    if rng.random() < 0.4:
        us.append(rng.choice(fresh_u) + "s")
    if recs and kind != "fresh":
        a = rng.choice(recs)
        b = rng.choice(recs)
        if kind in ("curie", "both"):
            x = rng.choice(spec.all_p(a))
            if rng.random() < 0.5:
                p = x
            else:
                ps.append(x)
        if kind in ("uri", "both"):
            x = rng.choice(spec.all_u(a))
            if rng.random() < 0.5:
                u = x
            else:
                us.append(x)
        if kind == "case":
            x = rng.choice(spec.all_p(a)).swapcase() if rng.random() < 0.5 else None
            if x is not None:
                p = x
            else:
                u = rng.choice(spec.all_u(a)).swapcase()
        if kind == "two":
            p = rng.choice(spec.all_p(a))
            us.append(rng.choice(spec.all_u(b)))
        if kind == "syn-only":
            ps.append(rng.choice(spec.all_p(a)))
        if kind == "same-record-more-names":
            # the very record that is registered already, with one more name whose spelling hides in a joined key: the empty
            # string next to no synonyms, or the comma-join of the existing synonyms (seed C05-L: records identified by
            # ",".join(sorted(synonyms)))
            p, u = a.prefix, a.uri_prefix
            known_p = {x for r in recs for x in spec.all_p(r)}
            known_u = {x for r in recs for x in spec.all_u(r)}
            side = rng.choice(["curie", "uri"])
            ps, us = list(a.psyn), list(a.usyn)
            extra = "" if rng.random() < 0.5 else ",".join(sorted(a.psyn if side == "curie" else a.usyn))
            if len(extra) > 60:
                extra = ""  # (pytrie walks its keys recursively: the monitors' reading of the trie stays within the stack)
            if side == "curie" and extra not in known_p and d not in extra:
                ps = [extra] if extra == "" and not a.psyn else [extra] if extra else ps + [""]
            elif side == "uri" and extra not in known_u:
                us = [extra] if extra == "" and not a.usyn else [extra] if extra else us + [""]
    ps = [x for x in dict.fromkeys(ps) if x != p]
    us = [x for x in dict.fromkeys(us) if x != u]
    return spec.Rec(p, u, tuple(ps), tuple(us), rng.choice([None, None, "^\\d+$"])), kind


def probe_strings(recs, d, rng):
    qs = []
    for r in (recs if len(recs) <= 12 else rng.sample(list(recs), k=12)):  # (at scale: a sample of the records)
        for p in spec.all_p(r):
            qs.append(("c", p + d + "1"))
            qs.append(("p", p))
        for u in spec.all_u(r):
            qs.append(("u", u + "1"))
            qs.append(("u", u))
    qs += [("c", "nope" + d + "1"), ("u", "zzz"), ("p", "")]
    return qs


def ask(c, kind, q):
    if kind == "c":
        return probe.okey((call(c.expand, q), call(c.expand_all, q), call(c.standardize_curie, q), call(c.is_curie, q)))
    if kind == "u":
        return probe.okey((call(c.compress, q), call(c.parse_uri, q, return_none=True), call(c.standardize_uri, q)))
    # (the record itself, not only whether there is one, and the question answered through it: seed C05-W - a lazily
    #  built name index of get_record that a merge does not extend)
    return probe.okey((call(c.standardize_prefix, q), call(c.get_record, q), call(c.expand_pair_all, q, "1")))


# ---- bounded-exhaustive small world: every history of <= 2 (quick) / <= 3 (thorough) operations over 8 records x 4 flag
# combinations on a fixed two-record converter ---------------------------------------------------------------------------
import itertools

SMALL_START = [spec.Rec("a", "u/", ("A",), (), "^\\d+$"), spec.Rec("b", "v/", (), ("v2/",), None)]
SMALL_NEW = [
    spec.Rec("c", "w/", (), (), None),               # fresh
    spec.Rec("a", "x/", (), (), "^x$"),              # CURIE-side overlap
    spec.Rec("d", "u/", (), (), None),               # URI-side overlap
    spec.Rec("a", "u/", (), (), None),               # both sides, same record
    spec.Rec("B", "y/", (), (), None),               # overlap only up to case (CURIE side)
    spec.Rec("e", "U/", (), (), None),               # overlap only up to case (URI side)
    spec.Rec("a", "v/", (), (), None),               # matches two records
    spec.Rec("f", "z/", ("b",), ("w/",), None),      # through synonyms; clashes with the fresh record's URI prefix later
]
SMALL_OPS = [(i, cs, mg) for i in range(len(SMALL_NEW)) for cs in (True, False) for mg in (False, True)]
SMALL_CHUNK = 60
_SMALL = {}


def _world(tier):
    if tier not in _SMALL:
        lmax = 3 if tier == "thorough" else 2
        _SMALL[tier] = [h for k in range(1, lmax + 1) for h in itertools.product(range(len(SMALL_OPS)), repeat=k)]
    return _SMALL[tier]


def small_world_case(ctx, g):
    api, S = ctx.api, probe.S
    for hist in _world(ctx.tier)[g * SMALL_CHUNK:(g + 1) * SMALL_CHUNK]:
        c = api.Converter([gen.mk_record(api, r) for r in SMALL_START])
        for oi in hist:
            ri, cs, mg = SMALL_OPS[oi]
            call(c.add_record, gen.mk_record(api, SMALL_NEW[ri]), case_sensitive=cs, merge=mg)
        after = list(spec.snapshot(c))
        if spec.is_unique(after):
            fresh = api.Converter([gen.mk_record(api, r) for r in after])
            for k, q in probe_strings(after, ":", None):
                probe.evaluated("fresh-differential")
                if ask(c, k, q) != ask(fresh, k, q):
                    violation(["C05"], "fresh-differential", "incremental-converter-answers-differently-from-fresh-one",
                              start=[spec.rec_dict(r) for r in SMALL_START], delimiter=":",
                              history=[{"new": spec.rec_dict(SMALL_NEW[SMALL_OPS[o][0]]), "case_sensitive": SMALL_OPS[o][1], "merge": SMALL_OPS[o][2]} for o in hist],
                              query=q, incremental=ask(c, k, q), fresh=ask(fresh, k, q))
                    break
        S.counters["wl:small-world-histories"] += 1
    probe.note_key(f"small-world:chunk{g % 64}", True)


def EXHAUSTIVE(tier, counters):
    n = counters.get("wl:small-world-histories", 0)
    total = len(_world(tier))
    return {
        "small_world_exhaustive": n == total,
        "explanation": f"{n} of {total} histories enumerated: every sequence of at most {3 if tier == 'thorough' else 2} add_record calls over 8 records (fresh, CURIE-side / URI-side / both / case-only overlap, two-record match, through synonyms) x case_sensitive x merge on a fixed two-record converter; random histories beyond that are sampling",
    }


def run_case(ctx, g, rng):
    api, S = ctx.api, probe.S
    if g * SMALL_CHUNK < len(_world(ctx.tier)):
        small_world_case(ctx, g)
    d = rng.choice(gen.DELIMS)
    start = gen.records(rng, d, 0, 4, allow_delim=True, patterns=True)
    if g % 101 == 100:
        # the same histories on a converter far above any plausible fast-path threshold
        start = gen.large_records(rng, rng.choice([150, 400]) if ctx.tier == "thorough" else 90, d)
        S.counters["wl:at-scale-histories"] += 1
        with probe.monitor_mode():  # (registering hundreds of records one by one under the C05 hook would cost O(n^3))
            c, how = api.Converter([gen.mk_record(api, r) for r in start], delimiter=d), "ctor"
    else:
        c, how = gen.build(api, start, d, rng)
    outcomes = []
    steps = rng.randint(1, 8)
    hist = []
    pool = []  # strings asked at every step, including ones that only a later record will make resolvable
    for _ in range(steps):
        cur = list(spec.snapshot(c))
        new, kind = new_record(rng, cur, d)
        for p in spec.all_p(new):
            pool.append(("c", p + d + "1"))
            pool.append(("p", p))
        for u in spec.all_u(new):
            pool.append(("u", u + "1"))
        pool = list(dict.fromkeys(pool))[-60:]
        for k, q in pool:
            ask(c, k, q)  # before the operation (monitored against the current records)
        cs = rng.random() < 0.6
        merge = rng.random() < 0.6
        if rng.random() < 0.1 and c.records:
            # the caller extends a Record object of its own that the converter already holds (add_record keeps the
            # caller's object) and registers that very object again, merging: all its names must resolve afterwards
            own = rng.choice(c.records)
            extra_p, extra_u = f"zzown{len(hist)}", f"http://zz.own/{len(hist)}/"
            if rng.random() < 0.5:
                own.prefix_synonyms.append(extra_p)
            else:
                own.uri_prefix_synonyms.append(extra_u)
            new = spec.rec_of(own)
            cur = list(spec.snapshot(c))
            cs, merge = True, True
            o = call(c.add_record, own, merge=True)
            op = "add_record(same object again)"
            pool += [("p", extra_p), ("u", extra_u + "1")]
            S.counters["wl:step:same-object-registered-again"] += 1
        elif rng.random() < 0.5:
            o = call(c.add_record, gen.mk_record(api, new), case_sensitive=cs, merge=merge)
            op = "add_record"
        else:
            if rng.random() < 0.15:  # add_prefix building an invalid record must be a clean ValueError too
                new = new._replace(psyn=new.psyn + (new.prefix,))
            coll = rng.choice([list, tuple, set, lambda x: list(x)])  # any Collection is accepted
            o = call(c.add_prefix, new.prefix, new.uri_prefix, coll(new.psyn) if new.psyn else None, coll(new.usyn) if new.usyn else None,
                     case_sensitive=cs, merge=merge)
            op = "add_prefix"
        after = list(spec.snapshot(c))
        if o[0] == "raise":
            res = "reject"
        elif len(after) > len(cur):
            res = "append"
        else:
            res = "merge"
        outcomes.append(res + ("" if cs else "-ci"))
        hist.append({"op": op, "new": spec.rec_dict(new), "case_sensitive": cs, "merge": merge, "kind": kind,
                     "outcome": res if o[0] == "ret" else type(o[1]).__name__})
        S.counters[f"wl:step:{res}"] += 1
        # differential against a freshly constructed converter
        if spec.is_unique(after):
            fresh = api.Converter([gen.mk_record(api, r) for r in after], delimiter=d)
            for k, q in probe_strings(after, d, rng) + pool:
                probe.evaluated("fresh-differential")
                a, b = ask(c, k, q), ask(fresh, k, q)
                if a != b:
                    violation(["C05"], "fresh-differential", "incremental-converter-answers-differently-from-fresh-one",
                              start=[spec.rec_dict(r) for r in start], delimiter=d, history=hist, query=q,
                              incremental=a, fresh=b)
                    break
    nontrivial = any(o.startswith(("merge", "reject")) for o in outcomes)
    probe.note_key("+".join(sorted(set(outcomes))) + f":{min(len(outcomes), 4)}:{'colon' if d == ':' else 'other'}", nontrivial)
    S.counters["wl:histories"] += 1
    if g % 149 == 0:
        probe.sample({"start": [spec.rec_dict(r) for r in start], "delimiter": d, "history": hist,
                      "final_records": [spec.rec_dict(r) for r in spec.snapshot(c)]})

"""C13 Every loader yields exactly the converter its input format denotes."""

from __future__ import annotations

import json

from .. import gen, probe, spec
from ..probe import violation
from .common import call

PROP = "C13"
LEVEL = "exploration"
CASES = {"quick": 1200, "thorough": 600000}
SHARDS = {"quick": 8, "thorough": 16}
ANCHORS = [
    "api.py:Converter.from_extended_prefix_map", "api.py:Converter.from_priority_prefix_map", "api.py:Converter.from_prefix_map",
    "api.py:Converter.from_reverse_prefix_map", "api.py:Converter.from_jsonld", "api.py:Converter.from_rdflib",
    "api.py:_prepare", "api.py:upgrade_prefix_map", "api.py:load_prefix_map", "api.py:load_extended_prefix_map",
    "api.py:load_jsonld_context",
]
DECIDING = ["sibling-unaffected", 
    "loader:from_prefix_map", "loader:from_priority_prefix_map", "loader:from_reverse_prefix_map",
    "loader:from_extended_prefix_map", "loader:from_jsonld", "loader:from_rdflib", "upgrade_prefix_map", "file-vs-object",
]
RULE = (
    "case = one generated input per loader over tiny alphabets (CURIE prefixes incl. empty, '@x', case variants, Unicode; "
    "URI prefixes nested / empty / duplicated where the format allows it): a prefix map (often non-bijective, given to "
    "upgrade_prefix_map in every insertion order up to 5 entries), a priority map with 1-3 URI prefixes per key, a "
    "reverse map with length ties, an extended prefix map, a JSON-LD context mixing string terms, @prefix dictionaries, "
    "@-keywords, the empty key and ignorable term shapes, and an rdflib graph / namespace manager (default namespace "
    "included; plain graphs and graphs using a shared or assigned namespace manager). Each is loaded as object and, where it is a JSON format, from a file given as str and as Path; the loader "
    "monitors compare the resulting records with what the input denotes (first URI prefix canonical; *a* shortest for the "
    "reverse map; lexicographically first CURIE prefix for upgrade_prefix_map; JSON-LD term filtering), the three forms "
    "must agree, and every listed pair is expanded and compressed through the monitored methods. key = loader x input "
    "features (multi-valued, length tie, duplicate URI prefixes, mixed term shapes, empty key, source form) x outcome; "
    "non-trivial = the input has >= 2 URI prefixes for a prefix, a length tie, duplicate URI prefixes or mixed JSON-LD "
    "term shapes."
    ' Every third file-vs-object comparison adds a fifth form: a str location of 300-1000 characters (deeply nested directories) (round 21).'
)
ASSUMPTIONS = ["JSON-LD @prefix dictionaries always carry a string @id (DESIGN 7.3)", "rdflib's own namespaces() is the meaning of a graph's prefix map"]

P0 = ["a", "A", "b", "ab", "é", "", "@x", "a.b", "GO", "x y", " a", "a ", "b\n", "ſ"]
U0 = ["u/", "u/x", "U/", "v#", "", "http://x/", "uu/", "vv#", "http://x/a_", "u/xy", " u/", "u/ ", "HTTP://X/",
     # (a URI prefix is an arbitrary string: also one that looks like a JSON-LD keyword or starts with '@', and the
     #  https twin of another one)
     "@id", "@", "@example.org/user/", "https://x/"]


def recs_key(c):
    return sorted((spec.norm(r) for r in spec.snapshot(c)), key=repr)


def three_forms(ctx, loader, obj, tag, **kw):
    """Load obj directly, from a str path and from a Path; the outcomes must agree."""
    outs = []
    p = ctx.tmp / "c13.json"
    forms = ("object", "str", "Path", "relative-str") + (("deep-str",) if ctx.n_files % 3 == 0 else ())
    for form in forms:
        if form == "object":
            arg = obj
        elif form == "deep-str":
            # a location several hundred characters long: short directory names, nested deeply (a file name may have
            # 255 bytes, a path 4096 - seed C13-W: strings beyond a length taken for data rather than for a location)
            deep = ctx.tmp.joinpath(*(["nested-directory-%02d" % i for i in range((13, 20, 45)[ctx.n_files % 3 if ctx.n_files % 9 else 2])]))
            deep.mkdir(parents=True, exist_ok=True)
            (deep / "c13.json").write_text(json.dumps(obj, ensure_ascii=True), encoding="utf-8")
            arg = str(deep / "c13.json")
            probe.S.counters[f"wl:deep-path:len{len(arg) // 100}00"] += 1
        elif form == "relative-str":
            # a relative file name (the process works in the scratch directory) that looks like something else to URL
            # machinery: a colon after a scheme-like label, a query or fragment mark, a percent sign
            import os

            os.chdir(ctx.tmp)
            name = ["obo:c13.json", "c13.json", "a b%20c.json", "x#y.json", "http:c13.json"][ctx.n_files % 5]
            ctx.n_files += 1
            (ctx.tmp / name).write_text(json.dumps(obj, ensure_ascii=True), encoding="utf-8")
            arg = name
        else:
            p.write_text(json.dumps(obj, ensure_ascii=bool(hash(tag) % 2)), encoding="utf-8")
            arg = str(p) if form == "str" else p
        o = call(loader, arg, **kw)
        outs.append(("ok", recs_key(o[1])) if o[0] == "ret" else ("err", type(o[1]).__name__))
        if form == "object":
            first = o
    probe.evaluated("file-vs-object")
    if any(x != outs[0] for x in outs[1:]):
        violation(["C13"], "file-vs-object", "file-and-object-forms-load-differently", loader=tag, input=obj,
                  object_form=outs[0], str_form=outs[1], path_form=outs[2], relative_str_form=outs[3],
                  deep_str_form=outs[4] if len(outs) > 4 else None, last_location=arg)
    return first


OPTIONS = [{"strict": True}, {"strict": False}, {"delimiter": "|"}, {"strict": True, "delimiter": "_"}, {"strict": False, "delimiter": "/"}]


def with_options(loader, obj, rng, pairs=()):
    """The same data through the same loader with its optional parameters spelled out (monitored like any other load)."""
    for kw in rng.sample(OPTIONS, k=2):
        o = call(loader, obj, **kw)
        probe.S.counters["wl:loads-with-options:" + "+".join(sorted(kw))] += 1
        if o[0] == "ret" and pairs and kw.get("strict", True):
            exercise(o[1], list(pairs)[:6])


def sibling_leg(loader, obj, tag, rng):
    """Two converters loaded from the very same plain-data object (dictionaries, lists, strings), one of them extended
    by a merge: the other one, and a third load of the same object, must be what the data denotes - a loader that keeps
    the caller's lists inside its records lets them all grow together.  (Not for inputs made of Record objects: a
    converter holds the Record objects it is given, that sharing is the caller's.)"""
    a, b = call(loader, obj), call(loader, obj)
    if a[0] != "ret" or b[0] != "ret":
        return
    before = spec.snapshot(b[1])
    recs = spec.snapshot(a[1])
    if not recs:
        return
    r0 = rng.choice(recs)
    call(a[1].add_prefix, r0.prefix, r0.uri_prefix, ["zzmerged"], ["http://zz.merged/"], merge=True)
    probe.evaluated("sibling-unaffected")
    after = spec.snapshot(b[1])
    c3 = call(loader, obj)
    third = spec.snapshot(c3[1]) if c3[0] == "ret" else c3
    if after != before or third != before:
        violation(["C13"], "sibling-unaffected", "converters-loaded-from-one-object-share-state", loader=tag, input=obj,
                  sibling_before=[spec.rec_dict(r) for r in before], sibling_after=[spec.rec_dict(r) for r in after],
                  third_load=[spec.rec_dict(r) for r in third] if isinstance(third, tuple) else third)
    for q in ("zzmerged:1", r0.prefix + ":1"):
        call(b[1].expand, q)
    call(b[1].compress, "http://zz.merged/1")
    probe.S.counters["wl:sibling-legs"] += 1


def exercise(c, pairs):
    for p, u in pairs:
        call(c.expand_pair, p, "1")
        call(c.expand, p + c.delimiter + "1")
        call(c.compress, u + "1")


def setup(ctx):
    import rdflib

    ctx.rdflib = rdflib
    ctx.n_files = 0


def at_scale_case(ctx, g, rng):
    """every loader on a map far above any plausible batch size or threshold"""
    api, S = ctx.api, probe.S
    C = api.Converter
    n = rng.choice([300, 1200]) if ctx.tier == "thorough" else 150
    recs = gen.large_records(rng, n)
    epm = [{"prefix": r.prefix, "uri_prefix": r.uri_prefix, "prefix_synonyms": list(r.psyn), "uri_prefix_synonyms": list(r.usyn)} for r in recs]
    o = three_forms(ctx, C.from_extended_prefix_map, epm, "extended_prefix_map")
    call(C.from_extended_prefix_map, (dict(x) for x in epm))
    some = rng.sample(recs, k=10)
    if o[0] == "ret":
        exercise(o[1], [(p, u) for r in some for p in spec.all_p(r) for u in spec.all_u(r)])
    pm = {r.prefix: r.uri_prefix for r in recs}
    o = three_forms(ctx, C.from_prefix_map, pm, "prefix_map")
    if o[0] == "ret":
        exercise(o[1], [(r.prefix, r.uri_prefix) for r in some])
    ppm = {r.prefix: [r.uri_prefix, *r.usyn] for r in recs}
    o = three_forms(ctx, C.from_priority_prefix_map, ppm, "priority_prefix_map")
    if o[0] == "ret":
        exercise(o[1], [(r.prefix, u) for r in some for u in spec.all_u(r)])
    rpm = {u: r.prefix for r in recs for u in spec.all_u(r)}
    o = three_forms(ctx, C.from_reverse_prefix_map, rpm, "reverse_prefix_map")
    if o[0] == "ret":
        exercise(o[1], [(r.prefix, u) for r in some for u in spec.all_u(r)])
    o = three_forms(ctx, C.from_jsonld, {"@context": {**pm, "@vocab": "http://v/"}}, "jsonld")
    if o[0] == "ret":
        exercise(o[1], [(r.prefix, r.uri_prefix) for r in some])
    call(api.upgrade_prefix_map, pm)
    S.counters[f"wl:at-scale:n{n}"] += 1
    probe.note_key(f"at-scale:n{n}", True)


def run_case(ctx, g, rng):
    if g % (151 if ctx.tier == "quick" else 1213) == 150:
        return at_scale_case(ctx, g, rng)
    api, S = ctx.api, probe.S
    C = api.Converter
    P, U = P0, U0
    if rng.random() < 0.2:
        # one case in five seasons the pools with value classes collected from the seeded changes
        P = P0 + [x for x in gen.hostile(rng, 3, exclude=(":",)) if x not in P0]
        U = U0 + [x for x in gen.hostile(rng, 3, uri=True) if x not in U0]
        S.counters["wl:pools-seasoned"] += 1
    which = g % 6
    pm = ppm = rpm = epm = data = den = None
    if which == 0:
        pm = {p: rng.choice(U) for p in rng.sample(P, k=rng.randint(0, 5))}
        dup = len(set(pm.values())) < len(pm)
        loader = rng.choice([C.from_prefix_map, api.load_prefix_map])
        o = three_forms(ctx, loader, pm, "prefix_map")
        if o[0] == "ret":
            exercise(o[1], pm.items())
        with_options(C.from_prefix_map, pm, rng, pm.items())
        sibling_leg(C.from_prefix_map, pm, "prefix_map", rng)
        probe.note_key(f"pm:dup{int(dup)}:{o[0]}:n{min(len(pm), 3)}", dup)
        # upgrade_prefix_map on the same (possibly non-bijective) map
        uo = call(api.upgrade_prefix_map, dict(pm))
        if uo[0] == "ret":
            co = call(C, uo[1])
            if co[0] == "ret":
                exercise(co[1], pm.items())
        probe.note_key(f"upgrade:dup{int(dup)}:n{min(len(pm), 5)}", dup)
        S.counters["wl:prefix_map"] += 1
    elif which == 1:
        ppm = {p: rng.sample(U, k=rng.randint(1, 3)) for p in rng.sample(P, k=rng.randint(0, 4))}
        allu = [u for us in ppm.values() for u in us]
        dup = len(set(allu)) < len(allu)
        o = three_forms(ctx, C.from_priority_prefix_map, ppm, "priority_prefix_map")
        if o[0] == "ret":
            exercise(o[1], [(p, u) for p, us in ppm.items() for u in us])
        with_options(C.from_priority_prefix_map, ppm, rng, [(p, u) for p, us in ppm.items() for u in us])
        if not dup:
            sibling_leg(C.from_priority_prefix_map, ppm, "priority_prefix_map", rng)
        multi = any(len(us) > 1 for us in ppm.values())
        probe.note_key(f"ppm:dup{int(dup)}:multi{int(multi)}:{o[0]}", multi or dup)
        S.counters["wl:priority_map"] += 1
    elif which == 2:
        rpm = {u: rng.choice(P[:5]) for u in rng.sample(U, k=rng.randint(0, 6))}
        o = three_forms(ctx, C.from_reverse_prefix_map, rpm, "reverse_prefix_map")
        if o[0] == "ret":
            exercise(o[1], [(p, u) for u, p in rpm.items()])
        with_options(C.from_reverse_prefix_map, rpm, rng, [(p, u) for u, p in rpm.items()])
        sibling_leg(C.from_reverse_prefix_map, rpm, "reverse_prefix_map", rng)
        groups = {}
        for u, p in rpm.items():
            groups.setdefault(p, []).append(u)
        tie = any(sorted(map(len, us))[:2] == [min(map(len, us))] * 2 for us in groups.values() if len(us) > 1)
        multi = any(len(us) > 1 for us in groups.values())
        probe.note_key(f"rpm:multi{int(multi)}:tie{int(tie)}:{o[0]}", multi)
        S.counters["wl:reverse_map"] += 1
    elif which == 3:
        recs = gen.records(rng, ":", 0, 4, allow_delim=True, patterns=True)
        if rng.random() < 0.3 and len(recs) >= 2:
            recs[1] = recs[1]._replace(usyn=recs[1].usyn + (recs[0].uri_prefix,))
        epm = []
        for r in recs:
            d = {"prefix": r.prefix, "uri_prefix": r.uri_prefix}
            if r.psyn or rng.random() < 0.3:
                d["prefix_synonyms"] = list(r.psyn)
            if r.usyn or rng.random() < 0.3:
                d["uri_prefix_synonyms"] = list(r.usyn)
            if r.pattern is not None:
                d["pattern"] = r.pattern
            epm.append(d)
        loader = rng.choice([C.from_extended_prefix_map, api.load_extended_prefix_map])
        o = three_forms(ctx, loader, epm, "extended_prefix_map")
        with_options(C.from_extended_prefix_map, epm, rng)
        sibling_leg(C.from_extended_prefix_map, epm, "extended_prefix_map", rng)
        call(C.from_extended_prefix_map, [gen.mk_record(api, r) for r in recs])
        if spec.is_unique(recs) and rng.random() < 0.4:
            # ... and the Record objects of a converter that is itself the product of merges or of a derivation
            # (seed C13-V: a per-record cache left stale by the merge and trusted by the constructor)
            prod, how_ = gen.build(api, recs, ":", rng, rng.choice(["grown-by-merge", "via-derivation", "incremental"]), rejections=False)
            S.counters[f"wl:records-of-a-product:{how_.split('(')[0]}"] += 1
            call(C.from_extended_prefix_map, list(prod.records))
            call(C, list(prod.records))
        # "an iterable of records or dictionaries": also handed over as one-shot iterables
        shape = rng.choice(["generator", "iterator", "map", "generator-of-records", "tuple"])
        S.counters[f"wl:epm-shape:{shape}"] += 1
        if shape == "generator":
            call(C.from_extended_prefix_map, (dict(x) for x in epm))
        elif shape == "iterator":
            call(C.from_extended_prefix_map, iter([dict(x) for x in epm]))
        elif shape == "map":
            call(C.from_extended_prefix_map, map(dict, epm))
        elif shape == "generator-of-records":
            call(C.from_extended_prefix_map, (gen.mk_record(api, r) for r in recs))
        else:
            call(C.from_extended_prefix_map, tuple(dict(x) for x in epm))
        if o[0] == "ret":
            exercise(o[1], [(p, u) for r in recs for p in spec.all_p(r) for u in spec.all_u(r)][:12])
        syn = any(r.psyn or r.usyn for r in recs)
        probe.note_key(f"epm:syn{int(syn)}:{o[0]}:n{len(recs)}", syn)
        S.counters["wl:extended_prefix_map"] += 1
    elif which == 4:
        ctxd = {}
        shapes = set()
        keys = rng.sample(P + ["@vocab", "@base", "@language"], k=rng.randint(0, 6))
        for k in keys:
            u = rng.choice(U)
            if rng.random() < 0.25:
                # a value that looks like a compact IRI of another term of the same context: still taken literally
                other = rng.choice([x for x in keys if x and not x.startswith("@")] or ["a"])
                u = other + ":" + rng.choice(["", "x_", "CHEBI_", "/y"])
                shapes.add("compact-looking-value")
            v, sh = rng.choice([
                (u, "str"), ({"@id": u, "@prefix": True}, "prefix-dict"), ({"@id": u}, "id-only"),
                ({"@id": u, "@prefix": False}, "prefix-false"), (5, "int"), (None, "null"), (["x"], "list"),
                ({"@id": u, "@prefix": "true"}, "prefix-string"), ({"@id": u, "@prefix": 1}, "prefix-one"),
                ({"@type": "@id"}, "type-only"),
            ])
            ctxd[k] = v
            shapes.add("kw" if k.startswith("@") else "empty" if k == "" else sh)
        data = {"@context": ctxd}
        if rng.random() < 0.3:
            data["@id"] = "x"
        if rng.random() < 0.3:
            # an ordinary JSON-LD document: the context is one member among others, which are data, not terms - also when
            # the context itself is empty (seed C13-Q: "@context or the object itself")
            data["name"] = "Alice"
            data[rng.choice(P[:5]) or "homepage"] = rng.choice(U)
            data["knows"] = {"@id": rng.choice(U), "@prefix": True}
            shapes.add("document-members")
        loader = rng.choice([C.from_jsonld, api.load_jsonld_context])
        o = three_forms(ctx, loader, data, "jsonld")
        with_options(C.from_jsonld, data, rng)
        sibling_leg(C.from_jsonld, data, "jsonld", rng)
        if o[0] == "ret":
            exercise(o[1], [(k, v if isinstance(v, str) else v["@id"]) for k, v in ctxd.items()
                            if k and not k.startswith("@") and (isinstance(v, str) or (isinstance(v, dict) and v.get("@prefix") is True))])
        probe.note_key(f"jsonld:{'+'.join(sorted(shapes))}:{o[0]}", len(shapes) >= 2)
        S.counters["wl:jsonld"] += 1
    else:
        gstyle = rng.choice(["plain", "plain", "shared-manager", "assigned-manager"])
        if gstyle == "plain":
            graph = ctx.rdflib.Graph(bind_namespaces="none")
        else:
            # rdflib's way of sharing prefix bindings between graphs: the bindings live in another graph's store
            holder = ctx.rdflib.Graph(bind_namespaces="none")
            nm = ctx.rdflib.namespace.NamespaceManager(holder, bind_namespaces="none")
            if gstyle == "shared-manager":
                graph = ctx.rdflib.Graph(namespace_manager=nm, bind_namespaces="none")
            else:
                graph = ctx.rdflib.Graph(bind_namespaces="none")
                graph.namespace_manager = nm
        S.counters[f"wl:rdflib-graph:{gstyle}"] += 1
        names = rng.sample(["a", "b", "", "ab", "A", "GO"], k=rng.randint(0, 4))
        for p in names:
            graph.bind(p, rng.choice(["http://x/", "http://y#", "http://x/a_", "urn:z:"]))
        den = {str(p): str(n) for p, n in graph.namespaces()}
        for src in (graph, graph.namespace_manager):
            o = call(C.from_rdflib, src)
            if o[0] == "ret":
                exercise(o[1], den.items())
        sibling_leg(C.from_rdflib, graph, "rdflib", rng)
        probe.note_key(f"rdflib:{gstyle}:default{int('' in den)}:n{len(den)}:{o[0]}", "" in den or len(den) >= 2)
        S.counters["wl:rdflib"] += 1
    if g % 199 < 6 and which == g % 199:
        inp = [pm, ppm, rpm, epm, data, den][which] if which < 6 else None
        probe.sample({"loader": ["prefix_map+upgrade_prefix_map", "priority_prefix_map", "reverse_prefix_map", "extended_prefix_map", "jsonld", "rdflib"][which],
                      "input": inp, "outcome": [spec.rec_dict(r) for r in spec.snapshot(o[1])] if o[0] == "ret" else type(o[1]).__name__})

"""Helpers shared by the drivers."""

from __future__ import annotations

from .. import gen, probe, spec
from ..probe import outcome_of

API_ANCHORS = {
    "parse_uri": "api.py:Converter.parse_uri",
    "init": "api.py:Converter.__init__",
    "index": "api.py:Converter._index",
    "compress": "api.py:Converter.compress",
    "is_uri": "api.py:Converter.is_uri",
}


def call(f, *a, **k):
    """Drive a real call; the outcome is returned, exceptions are data for the monitors."""
    return outcome_of(f, *a, **k)


def core_queries(c, q, modes=False):
    """Issue every query method on one string (all monitored)."""
    combos = [dict()]
    if modes:
        combos = [dict(), dict(passthrough=True), dict(strict=True), dict(strict=True, passthrough=True)]
    for kw in combos:
        for name in ("compress", "expand", "compress_or_standardize", "expand_or_standardize",
                     "standardize_prefix", "standardize_curie", "standardize_uri"):
            call(getattr(c, name), q, **kw)
    call(c.parse_uri, q, return_none=True)
    call(c.parse_uri, q)
    call(c.is_uri, q)
    call(c.is_curie, q)
    call(c.expand_all, q)
    call(c.parse, q, strict=False)
    call(c.parse_curie, q)
    if modes:
        call(c.parse_uri, q, strict=True)
        call(c.parse_uri, q, strict=True, return_none=True)
        call(c.expand_all, q, strict=True)
        call(c.parse, q, strict=True)
        call(c.parse_curie, q, strict=True)
        call(c.compress_strict, q)
        call(c.expand_strict, q)

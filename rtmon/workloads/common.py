"""Helpers shared by the drivers."""

from __future__ import annotations

from .. import gen, probe, spec
from ..probe import outcome_of

API_ANCHORS = {
    "parse_uri": "api.py:Converter.parse_uri",
    "init": "api.py:Converter.__init__",
    "index": "api.py:Converter._index",
    "compress": "api.py:Converter.compress",
    "is_uri": "api.py:Converter.is_uri",
}


def call(f, *a, **k):
    """Drive a real call; the outcome is returned, exceptions are data for the monitors.

    A list of strings that comes back (expand_all, expand_pair_all) is the caller's: the driver appends an entry of
    its own to it, as a caller may; whatever is asked afterwards must not notice."""
    o = outcome_of(f, *a, **k)
    name = getattr(f, "__name__", "")
    if name in REASKED and getattr(f, "__self__", None) is not None:
        S = probe.S
        S.asked_n += 1
        if S.asked_n <= 120 or (S.asked_n % 41 == 0 and len(S.asked) < 400):
            S.asked.append((f, a, k))
    if o[0] == "ret" and type(o[1]) is list and o[1] and all(isinstance(x, str) for x in o[1]) and getattr(f, "__name__", "") in ("expand_all", "expand_pair_all"):
        o[1].append("zz-appended-by-the-caller")
        probe.note_caller_mutation(o[1])
        probe.S.counters["wl:results-mutated-by-the-caller"] += 1
    return o


REASKED = {
    "parse_uri", "compress", "is_uri", "expand", "expand_pair", "expand_reference", "expand_all", "expand_pair_all", "is_curie",
    "standardize_prefix", "standardize_curie", "standardize_uri", "parse", "parse_curie", "compress_or_standardize",
    "expand_or_standardize", "get_record",
}


def reask(rng, k=60):
    """At the end of a case: a sample of the queries the driver made during it, once more, in shuffled order.

    Every answer is judged on its own by the reference-model monitors against what the converter holds NOW (it may have
    grown since), so the order of calls is free; an answer that depends on what was asked just before, or on what the
    same object answered earlier in its life (a remembered last match, a memo that is not invalidated), only shows
    when the same questions come back in another order (seeds C02-O, C06-O, C08-O)."""
    S = probe.S
    asked, S.asked = S.asked, []
    if not asked:
        return
    sample = rng.sample(asked, k=min(k, len(asked)))
    for f, a, kw in sample:
        outcome_of(f, *a, **kw)
    S.counters["wl:queries-re-asked-shuffled-at-the-end-of-the-case"] += len(sample)


def core_queries(c, q, modes=False):
    """Issue every query method on one string (all monitored)."""
    combos = [dict()]
    if modes:
        combos = [dict(), dict(passthrough=True), dict(strict=True), dict(strict=True, passthrough=True)]
    for kw in combos:
        for name in ("compress", "expand", "compress_or_standardize", "expand_or_standardize",
                     "standardize_prefix", "standardize_curie", "standardize_uri"):
            call(getattr(c, name), q, **kw)
    call(c.parse_uri, q, return_none=True)
    call(c.parse_uri, q)
    call(c.is_uri, q)
    call(c.is_curie, q)
    call(c.expand_all, q)
    call(c.parse, q, strict=False)
    call(c.parse_curie, q)
    if modes:
        call(c.parse_uri, q, strict=True)
        call(c.parse_uri, q, strict=True, return_none=True)
        call(c.expand_all, q, strict=True)
        call(c.parse, q, strict=True)
        call(c.parse_curie, q, strict=True)
        call(c.compress_strict, q)
        call(c.expand_strict, q)


def grow_while_asking(api, recs, d, rng, ask, strings):
    """Register `recs` one by one on an empty converter; before every registration call ask(c, s) for every s.

    URI / CURIE synonyms sometimes arrive later through a merge, registrations go through add_record or add_prefix.
    A lookup that remembers an answer (or a miss) from before a record arrived only gives itself away when the same
    string is asked again afterwards - which the caller does on the returned converter.
    """
    c = api.Converter([], delimiter=d)
    steps = []
    for r in rng.sample(list(recs), k=len(recs)):
        if (r.usyn or r.psyn) and rng.random() < 0.5:
            steps.append((r._replace(usyn=(), psyn=()), False))
            steps.append((r, True))  # the full record merges into its bare form
        else:
            steps.append((r, False))
    order = list(range(len(steps)))
    rng.shuffle(order)
    # a merge step must come after its bare form: re-sort minimally
    final = []
    placed = set()
    for i in order:
        r, is_merge = steps[i]
        if is_merge and (i - 1) not in placed:
            final.append(i - 1)
            placed.add(i - 1)
        if i not in placed:
            final.append(i)
            placed.add(i)
    for i in final:
        r, is_merge = steps[i]
        for s in strings:
            ask(c, s)
        if is_merge or rng.random() < 0.5:
            outcome_of(c.add_record, gen.mk_record(api, r), merge=is_merge)
        else:
            outcome_of(c.add_prefix, r.prefix, r.uri_prefix, list(r.psyn), list(r.usyn))
    return c


def use_as_input_of_derivations(api, c, rng):
    """Chain `c` with a converter that overlaps it and brings new synonyms, subset it and merge into the subset.

    Correct code leaves `c` untouched; the caller then asks `c` again (monitored against c's own records).
    Only for converters with the default delimiter.  Returns strings worth asking afterwards.
    """
    recs = list(spec.snapshot(c))
    if not recs or c.delimiter != ":":
        return []
    r0 = rng.choice(recs)
    other = api.Converter([
        api.Record(prefix="zzp", uri_prefix=r0.uri_prefix, prefix_synonyms=["zzsyn"], uri_prefix_synonyms=[r0.uri_prefix + "zz_"]),
        api.Record(prefix="zzother", uri_prefix="http://zz.other/"),
    ])
    outcome_of(api.chain, [c, other])
    so = outcome_of(c.get_subconverter, [r0.prefix])
    if so[0] == "ret":
        outcome_of(so[1].add_prefix, r0.prefix, r0.uri_prefix, ["zzsyn2"], [r0.uri_prefix + "yy_"], merge=True)
    probe.S.counters["wl:asked-again-after-being-derived-from"] += 1
    return ["zzp", "zzsyn", "zzsyn2", r0.uri_prefix + "zz_1", r0.uri_prefix + "yy_1", r0.prefix, r0.uri_prefix + "1"]


def scale_leg(ctx, rng, d, modes=False, every=41, g=0):
    """One case in `every`: the same query families on a converter far above any plausible fast-path threshold, batch
    size or slice limit (150 / 400 / 1100 records, deep URI-prefix tree, synonyms), built by a random route.  The
    always-on query monitors compare every answer with the linear-scan model."""
    if ctx.tier == "thorough":
        every = every * 4 + 1  # larger maps, fewer of them (moduli coprime to the shard counts)
    if g % every != every - 1:
        return
    api = ctx.api
    n = rng.choice([150, 400, 1100] if ctx.tier == "thorough" else [120, 260])
    recs = gen.large_records(rng, n, d)
    with probe.monitor_mode():  # the build itself is not the subject here (and its hooks cost O(n) per registration)
        c, how = gen._build(api, recs, d, rng, rng.choice(["ctor", "incremental", "mixed", "grown-by-merge"]))
    probe.S.counters[f"wl:at-scale:n{n}:{how}"] += 1
    for r in rng.sample(recs, k=10 if ctx.tier == "thorough" else 4):
        for p in spec.all_p(r):
            core_queries(c, p + d + rng.choice(["1", "", "a" + d + "b"]), modes=modes)
            outcome_of(c.expand_pair, p, "1")
            outcome_of(c.expand_pair_all, p, "1")
            outcome_of(c.standardize_prefix, p)
        for u in spec.all_u(r):
            core_queries(c, u + rng.choice(["1", "", "x/y"]), modes=modes)
            core_queries(c, u[:-1], modes=False)
    core_queries(c, "nope" + d + "1", modes=modes)
    probe.note_key(f"at-scale:n{n}", True)


def change_delimiter_mid_life(c, strings, rng, ask):
    """A converter that has already answered questions gets another delimiter (`converter.delimiter = ...`, a public
    attribute) and is asked the same strings again, then gets its old delimiter back and is asked once more: every
    answer follows the attribute (the always-on monitors read it at call time)."""
    old = c.delimiter
    prefixes = [p for r in spec.snapshot(c) for p in spec.all_p(r)]
    others = [x for x in gen.DELIMS if x != old and not any(x in p for p in prefixes)]
    if not others:
        return
    new = rng.choice(others)
    for s_ in strings:
        ask(c, s_)
    try:
        c.delimiter = new
    except AttributeError:  # an implementation whose delimiter cannot be assigned: nothing to check
        probe.S.counters["wl:delimiter-not-assignable"] += 1
        return
    for s_ in strings:
        ask(c, s_)
        ask(c, s_.replace(old, new))
    c.delimiter = old
    for s_ in strings:
        ask(c, s_)
    probe.S.counters["wl:delimiter-changed-mid-life"] += 1


def growth_sweep(ctx, rng, d, g, every=97, relate=None):
    """One case in `every`: a converter grows one registration at a time through every size from a few records to
    140 (72 in the quick tier) - records with nested URI prefixes and synonyms, added bare and completed by merges - and
    is asked after every step about its oldest, its newest and a random record.  A fast path, an index or a limit that
    switches at *some* number of records or URI prefixes (a constant nobody outside the implementation knows) is
    crossed on the way, in a converter that started below it."""
    if g % every != every - 1:
        return
    api, S = ctx.api, probe.S
    top = 140 if ctx.tier == "thorough" else 72
    recs = gen.large_records(rng, top, d)
    k0 = rng.choice([0, 1, 5, 12, 16, 17, 20])
    with probe.monitor_mode():
        c = api.Converter([gen.mk_record(api, r) for r in recs[:k0]], delimiter=d)
    have = list(recs[:k0])

    def ask_about(r):
        for p in spec.all_p(r)[:2]:
            q = p + d + "1"
            outcome_of(c.expand, q)
            outcome_of(c.expand_all, q)
            outcome_of(c.expand_pair_all, p, "1")
            outcome_of(c.standardize_prefix, p)
            outcome_of(c.standardize_curie, q)
            outcome_of(c.parse, q, strict=False)
            outcome_of(c.is_curie, q)
            if relate:
                relate(c, q)
        for u in spec.all_u(r)[:2]:
            q = u + "1"
            outcome_of(c.compress, q)
            outcome_of(c.parse_uri, q, return_none=True)
            outcome_of(c.standardize_uri, q)
            outcome_of(c.compress_or_standardize, q)
            outcome_of(c.is_uri, q)
            if relate:
                relate(c, q)

    for r in recs[k0:]:
        style = rng.random()
        if style < 0.4 or not (r.psyn or r.usyn):
            outcome_of(c.add_record, gen.mk_record(api, r))
        elif style < 0.7:
            outcome_of(c.add_prefix, r.prefix, r.uri_prefix, list(r.psyn), list(r.usyn))
        else:  # bare first; the synonyms arrive through merges (the number of records stays what it is)
            outcome_of(c.add_prefix, r.prefix, r.uri_prefix)
            for x in r.psyn:
                outcome_of(c.add_prefix, x, r.uri_prefix, merge=True)
            for x in r.usyn:
                outcome_of(c.add_prefix, r.prefix, x, merge=True)
        have.append(r)
        for who in {0, len(have) - 1, rng.randrange(len(have))}:
            ask_about(have[who])
        if len(have) % 16 == 0:
            sub = outcome_of(c.get_subconverter, [have[0].prefix, r.prefix])
            if sub[0] == "ret":
                outcome_of(sub[1].expand, r.prefix + d + "1")
    S.counters[f"wl:growth-sweeps:to-{top}:from-{k0}"] += 1
    probe.note_key(f"growth-sweep:from{k0}", True)


def long_lived(ctx, rng, d, g, every=211):
    """One case in `every`: a converter answers 70000 distinct strings (unjudged - the point is what it may have
    remembered), then learns a nested URI prefix, a synonym and a new record, and is asked the first strings again."""
    if g % every != every - 1:
        return
    api = ctx.api
    c = api.Converter([api.Record(prefix="OBO", uri_prefix="http://purl.obolibrary.org/obo/"), api.Record(prefix="x", uri_prefix="http://x/")], delimiter=d)
    early = ["http://purl.obolibrary.org/obo/GO_0032571", "https://identifiers.org/hgnc:1234", "hgnc" + d + "1234", "GO" + d + "1", "OBO" + d + "GO_1"]
    for q in early:
        core_queries(c, q)
    probe.evaluated("long-lived-converter")
    with probe.monitor_mode():
        for i in range(70000):
            try:
                c.compress(f"http://purl.obolibrary.org/obo/X_{i}")
                if i % 7 == 0:
                    c.expand(f"x{d}{i}")
                    c.standardize_prefix(f"p{i}")
            except Exception as e:  # noqa: BLE001
                # the default call never raises (C08), however many strings the converter has seen (seed C08-W: a bounded
                # memo that fails when it is first trimmed; until this guard the driver crashed: INCONCLUSIVE)
                probe.violation(["C08"], "long-lived-converter", "default-call-raises-after-many-distinct-queries",
                                distinct_queries_so_far=i, query=f"http://purl.obolibrary.org/obo/X_{i}", observed=e, delimiter=d)
                break
    outcome_of(c.add_prefix, "GO", "http://purl.obolibrary.org/obo/GO_", ["gomf"], ["http://amigo.geneontology.org/amigo/term/GO:"])
    outcome_of(c.add_prefix, "hgnc", "https://bioregistry.io/hgnc:", None, ["https://identifiers.org/hgnc:"])
    outcome_of(c.add_prefix, "OBO", "http://purl.obolibrary.org/obo/", ["obo"], merge=True)
    for q in early + ["obo" + d + "GO_1", "gomf" + d + "1"]:
        core_queries(c, q)
    probe.S.counters["wl:long-lived-converters"] += 1
    probe.note_key("long-lived", True)

"""C14 Written contexts read back to the same converter."""

from __future__ import annotations

from pathlib import Path

from .. import gen, probe, spec
from .common import call

PROP = "C14"
LEVEL = "exploration"
CASES = {"quick": 500, "thorough": 100000}
SHARDS = {"quick": 8, "thorough": 16}
ANCHORS = [
    "api.py:write_extended_prefix_map", "api.py:_record_to_dict", "api.py:write_jsonld_context", "api.py:_get_jsonld_context",
    "api.py:_get_expanded_term", "api.py:write_shacl", "api.py:_get_shacl_line", "api.py:write_tsv", "api.py:Converter.from_shacl",
]
# public functions the driver does not call itself (the library reaches them internally today): missing => reported, not inconclusive
SOFT_ANCHORS = ['api.py:Converter.from_shacl']
DECIDING = ["writer:write_extended_prefix_map", "writer:write_jsonld_context", "writer:write_shacl", "writer:write_tsv"]
RULE = (
    "case = strict converter of 1-4 records (records with and without synonyms side by side, patterns in half of them; "
    "a third of the converters are built from bare prefix/URI-prefix pairs that acquire their synonyms later through "
    "merging add_prefix / add_record calls or chain) "
    "whose strings are drawn per format: extended prefix map - arbitrary Unicode scalar values incl. quotes, angle "
    "brackets, newlines, tabs, carriage returns; JSON-LD - the printable alphabet, non-empty prefixes not starting with "
    "'@'; SHACL and TSV - printable characters without double quote, angle brackets and control characters (backslash, "
    "braces, '|', '^', '$', non-ASCII included). Each writer is called with every flag combination (include_synonyms, "
    "expand; str and Path targets) and its round-trip contract reads the file back: EPM - every record's prefix, URI "
    "prefix, both synonym sets and pattern; JSON-LD / SHACL / TSV - the canonical prefix map, plus every CURIE-prefix "
    "synonym with include_synonyms=True, plus the patterns for SHACL. key = writer x flags x content features (backslash "
    "in prefix / URI prefix / pattern, non-ASCII, whitespace or control characters, synonyms present, mixed records with "
    "and without synonyms); non-trivial = any such feature present."
)
ASSUMPTIONS = [
    "read back with the library's own loaders (load_extended_prefix_map, load_jsonld_context(strict=False), load_shacl(strict=False)) and Python's csv module for TSV",
    "a falsy pattern counts as absent, as everywhere in the library",
]

# (U+0301 after a base letter, U+212B ANGSTROM SIGN, U+2126 OHM SIGN and U+1100 / U+1161 conjoining jamo are changed by NFC
#  normalisation: what is written must come back as written - seed C14-R)
SAFE = "abAB01 .-_:/#?=&'(){}[]|\\^$*+é~@!,;%ß日😀𝔤e\u0301\u212b\u2126\u1100\u1161"
WILD = SAFE + "\"<>\n\t\r  \x00\x7f😀"


def rstr(rng, alpha, lo, hi):
    return "".join(rng.choice(alpha) for _ in range(rng.randint(lo, hi)))


def gconv(api, rng, alpha, nonempty_prefix):
    for _ in range(100):
        n = rng.randint(1, 4)
        recs = []
        for i in range(n):
            # synonyms on either side independently: records with only URI synonyms, only CURIE synonyms, both, none
            recs.append(spec.Rec(
                rstr(rng, alpha, 1 if nonempty_prefix else 0, 3),
                # (a URI prefix is an arbitrary string: sometimes one that means something to the format underneath)
                rstr(rng, alpha, 0, 5) if rng.random() < 0.93 else rng.choice(["@id", "@type", "@vocab", "@base", "@context", "_:", "a", "<x>"[1:2]]),
                # (a CURIE-prefix synonym may be the empty string - the default namespace as an alias; SHACL can say so)
                tuple(rstr(rng, alpha, 0 if rng.random() < 0.15 else 1, 3) for _ in range(rng.randint(1, 2))) if rng.random() < 0.45 else (),
                tuple(rstr(rng, alpha, 1, 5) for _ in range(rng.randint(1, 2))) if rng.random() < 0.45 else (),
                rstr(rng, alpha, 0, 6) if rng.random() < 0.5 else None,
            ))
        if rng.random() < 0.1 and len(recs) >= 2 and recs[0].prefix:
            # a URI prefix that looks like a compact IRI over another record's prefix ("obo:GO_" next to the prefix "obo"):
            # written verbatim, it must be read verbatim (seed C14-D: a reader that expands such values)
            recs[1] = recs[1]._replace(uri_prefix=recs[0].prefix + ":" + rstr(rng, alpha, 0, 3))
        if rng.random() < 0.1 and recs:
            # two records whose canonical prefixes differ only by letter case (GO / go, Straße / STRASSE): different
            # strings, different records - every written format keeps both (seed C14-U: an export keyed on casefold())
            r0 = recs[0]
            tw = next((x for x in (r0.prefix.swapcase(), r0.prefix.upper(), r0.prefix.lower(), "STRASSE" if r0.prefix == "Straße" else None)
                       if x and x != r0.prefix), None)
            if tw is None:
                recs[0] = r0 = r0._replace(prefix="Straße" if nonempty_prefix or True else r0.prefix)
                tw = "STRASSE"
            recs.append(spec.Rec(tw, rstr(rng, alpha, 1, 5) + "~tw", (), (), None))
        if spec.is_unique(recs) and not any(spec.self_clash(r) for r in recs) and len({x for r in recs for x in spec.all_p(r)}) == sum(len(spec.all_p(r)) for r in recs) \
                and len({x for r in recs for x in spec.all_u(r)}) == sum(len(spec.all_u(r)) for r in recs):
            if rng.random() < 0.06:
                # a record may list one of its own synonyms twice (one claim, not a clash: the constructor takes it, and
                # what is written must load again - seed C14-O)
                i = rng.randrange(len(recs))
                r = recs[i]
                if r.psyn and rng.random() < 0.5:
                    recs[i] = r._replace(psyn=r.psyn + (rng.choice(r.psyn),))
                elif r.usyn:
                    recs[i] = r._replace(usyn=r.usyn + (rng.choice(r.usyn),))
            if rng.random() < 0.35:
                # a converter with a past: bare records that acquired their synonyms through merges / chain
                o = call(gen.build, api, recs, ":", rng, "grown-by-merge")
                if o[0] == "ret":
                    c = o[1][0]
                    if rng.random() < 0.3:
                        o2 = call(api.chain, [c])
                        if o2[0] == "ret":
                            c = o2[1]
                    return c, list(spec.snapshot(c))
                continue
            if rng.random() < 0.12 and any(r.psyn for r in recs):
                # ... or the product of a remapping that asks for what is already the case (a house-style remapping applied
                # to a converter that complies: {synonym: canonical prefix}) - seed C14-V
                import curies

                o = call(api.Converter, [gen.mk_record(api, r) for r in recs])
                if o[0] == "ret":
                    r0 = rng.choice([r for r in recs if r.psyn])
                    o2 = call(curies.remap_curie_prefixes, o[1], {rng.choice(r0.psyn): r0.prefix})
                    if o2[0] == "ret":
                        return o2[1], list(spec.snapshot(o2[1]))
                continue
            if rng.random() < 0.25:
                # ... or registered record by record on an empty converter ("pass an empty list if you plan to build the
                # converter incrementally")
                o = call(gen.build, api, recs, ":", rng, "incremental")
                if o[0] == "ret":
                    return o[1][0], list(spec.snapshot(o[1][0]))
                continue
            o = call(api.Converter, [gen.mk_record(api, r) for r in recs])
            if o[0] == "ret":
                return o[1], recs
    return None, None


def features(recs):
    f = set()
    for r in recs:
        if any("\\" in x for x in spec.all_p(r)):
            f.add("bs-prefix")
        if any("\\" in x for x in spec.all_u(r)):
            f.add("bs-uri")
        if r.pattern and "\\" in r.pattern:
            f.add("bs-pattern")
        strings = [*spec.all_p(r), *spec.all_u(r), r.pattern or ""]
        if any(ord(ch) > 127 for s in strings for ch in s):
            f.add("non-ascii")
        if any(ord(ch) > 0xFFFF for s in strings for ch in s):
            f.add("astral")
        if any(ch.isspace() or not ch.isprintable() for s in strings for ch in s):
            f.add("ws-or-control")
        if r.pattern == "":
            f.add("empty-pattern")
    syn = [bool(r.psyn or r.usyn) for r in recs]
    if any(syn):
        f.add("syn")
    if any(r.usyn and not r.psyn for r in recs):
        f.add("usyn-only")
    if any(r.psyn and not r.usyn for r in recs):
        f.add("psyn-only")
    if any(syn) and not all(syn):
        f.add("mixed")
    return f


def at_scale_case(ctx, g, rng):
    """every writer on a converter far above any plausible batch size or threshold"""
    api, S = ctx.api, probe.S
    n = rng.choice([300, 1000]) if ctx.tier == "thorough" else 120
    recs = gen.large_records(rng, n)
    with probe.monitor_mode():
        c = api.Converter([gen.mk_record(api, r) for r in recs])
    tmp = ctx.tmp
    call(api.write_extended_prefix_map, c, tmp / "big.json")
    for syn in (False, True):
        call(api.write_jsonld_context, c, tmp / "bigj.json", include_synonyms=syn, expand=rng.random() < 0.5)
        call(api.write_shacl, c, tmp / "bigs.ttl", include_synonyms=syn)
    call(api.write_tsv, c, tmp / "bigt.tsv")
    S.counters[f"wl:at-scale:n{n}"] += 1
    probe.note_key(f"at-scale:n{n}", True)


def run_case(ctx, g, rng):
    if g % 103 == 103 - 1:
        return at_scale_case(ctx, g, rng)
    api, S = ctx.api, probe.S
    tmp = ctx.tmp
    # EPM: arbitrary Unicode
    c, recs = gconv(api, rng, WILD, False)
    if c is not None:
        p = tmp / "e.json"
        call(api.write_extended_prefix_map, c, str(p) if rng.random() < 0.5 else p)
        ft = features(recs)
        probe.note_key("epm:" + "+".join(sorted(ft)), bool(ft))
        S.counters["wl:epm"] += 1
    # the three text formats share the restricted alphabet
    c, recs = gconv(api, rng, SAFE, rng.random() < 0.85)
    if c is None:
        return
    ft = features(recs)
    tag = "+".join(sorted(ft))
    if not any(p.startswith("@") for r in recs for p in spec.all_p(r)):
        for exp in (False, True):
            for syn in (False, True):
                p = tmp / "j.json"
                call(api.write_jsonld_context, c, str(p) if rng.random() < 0.5 else p, include_synonyms=syn, expand=exp)
                probe.note_key(f"jsonld:e{int(exp)}s{int(syn)}:{tag}", bool(ft))
                S.counters["wl:jsonld"] += 1
    for syn in (False, True):
        p = tmp / "s.ttl"
        call(api.write_shacl, c, str(p) if rng.random() < 0.5 else p, include_synonyms=syn)
        probe.note_key(f"shacl:s{int(syn)}:{tag}", bool(ft))
        S.counters["wl:shacl"] += 1
    p = tmp / "t.tsv"
    if rng.random() < 0.5:
        call(api.write_tsv, c, p)
    else:
        call(api.write_tsv, c, str(p), header=("curie_prefix", "uri_prefix"))
    probe.note_key(f"tsv:{tag}", bool(ft))
    S.counters["wl:tsv"] += 1
    # every writer once more on the same converter object, in another order: writing is reading - the second file
    # must read back like the first
    # the same writers addressed by a relative name, after the process changed its working directory (to the scratch
    # directory) since the library was imported: what is written is found again under the same relative name
    import os

    os.chdir(tmp)
    call(api.write_extended_prefix_map, c, "rel_e.json")
    call(api.write_shacl, c, "rel_s.ttl", include_synonyms=rng.random() < 0.5)
    call(api.write_tsv, c, rng.choice(["rel_t.tsv", Path("rel_t.tsv")]))
    if not any(p.startswith("@") or not p for r in recs for p in spec.all_p(r)):
        call(api.write_jsonld_context, c, Path("sub") / "rel_j.json" if False else "rel_j.json", include_synonyms=rng.random() < 0.5, expand=rng.random() < 0.5)
    S.counters["wl:relative-file-names"] += 3
    again = [("epm", None, None), ("shacl", False, None), ("shacl", True, None), ("tsv", None, None)]
    if not any(p.startswith("@") for r in recs for p in spec.all_p(r)):
        again += [("jsonld", syn, exp) for syn in (False, True) for exp in (False, True)] + [("jsonld", True, True)]
    rng.shuffle(again)
    for kind, syn, exp in again:
        if kind == "epm":
            call(api.write_extended_prefix_map, c, tmp / "e2.json")
        elif kind == "shacl":
            call(api.write_shacl, c, tmp / "s2.ttl", include_synonyms=syn)
        elif kind == "tsv":
            call(api.write_tsv, c, tmp / "t2.tsv")
        else:
            call(api.write_jsonld_context, c, tmp / "j2.json", include_synonyms=syn, expand=exp)
        S.counters["wl:repeated-writes"] += 1
    if g % 97 == 0:
        probe.sample({"records": [spec.rec_dict(r) for r in recs], "features": sorted(ft),
                      "shacl_file": (tmp / "s.ttl").read_text()[:600] if (tmp / "s.ttl").exists() else None})

"""C18 The mapping service returns exactly the equivalent URIs, in the requested format."""

from __future__ import annotations

import collections
import csv
import io
import json
import sys
import types
import xml.etree.ElementTree as ET

from .. import gen, probe, spec
from ..mon_misc import CANON, DEFAULT, negotiate
from ..probe import evaluated, violation
from .common import call

PROP = "C18"
LEVEL = "exploration"
CASES = {"quick": 120, "thorough": 30000}
SHARDS = {"quick": 8, "thorough": 16}
TIMEOUT = {"quick": 900, "thorough": 6000}
ANCHORS = [
    "mapping_service/api.py:MappingServiceGraph._expand_pair_all", "mapping_service/api.py:MappingServiceGraph.triples",
    "mapping_service/rdflib_custom.py:MappingServiceSPARQLProcessor.query", "mapping_service/rdflib_custom.py:_optimize_node",
    "mapping_service/utils.py:parse_header", "mapping_service/utils.py:handle_header", "mapping_service/utils.py:_handle_part",
    "mapping_service/api.py:get_flask_mapping_blueprint", "mapping_service/api.py:get_fastapi_router",
    "mapping_service/api.py:get_flask_mapping_blueprint.<locals>.serve_sparql",
    "mapping_service/api.py:get_fastapi_router.<locals>.resolve_get",
    "mapping_service/api.py:get_fastapi_router.<locals>.resolve_post",
]
# public functions the driver does not call itself (the library reaches them internally today): missing => reported, not inconclusive
SOFT_ANCHORS = ['mapping_service/api.py:MappingServiceGraph.triples', 'mapping_service/rdflib_custom.py:MappingServiceSPARQLProcessor.query', 'mapping_service/utils.py:parse_header', 'mapping_service/api.py:get_flask_mapping_blueprint', 'mapping_service/api.py:get_fastapi_router']
DECIDING = ["mapping:graph", "mapping:web", "mapping:content-type", "handle_header"]
REPO_TESTS = True
RULE = (
    "case = a strict converter whose URI prefixes are valid IRI text (records with 0-2 URI-prefix synonyms, nested "
    "prefixes), optionally with configured predicates. (a) MappingServiceGraph.query through the custom processor: ?s "
    "bound or ?o bound, VALUES inside (first, last or in a nested group) or after WHERE, plain / SELECT * / DISTINCT / "
    "PREFIX-declared predicate / ORDER BY / parenthesised VALUES forms, other variable names, configured and foreign predicates, 1-3 recognised and unrecognised "
    "URIs (in every second case the converter behind the live graph and apps grows between queries: a URI-prefix synonym "
    "merged into an existing record, a new record); bindings compared, as a multiset (single predicate) or set (several), with the model's expand_all(compress(u)). "
    "(b) the same queries through Flask GET and POST and FastAPI GET and POST, response bodies parsed by harness-own JSON / XML / "
    "CSV readers; all legs must equal the model. (c) content negotiation: generated RFC 7231 Accept headers (supported, "
    "synonym and unsupported media types, q-values, optional whitespace around ',' and ';') given to handle_header "
    "(monitored against an independent Accept parser; any of the tied best types is accepted) and sent with the web "
    "requests, where the served Content-Type must be an acceptable one. key = binding direction x VALUES placement x "
    "predicate kind x URI class (canonical / synonym / unrecognised / nested) x leg, and for headers: number of ranges x "
    "has-q x has-whitespace x outcome class; non-trivial = the URI is recognised through a synonym of a record with >= 2 "
    "URI prefixes, or the header contains whitespace or a q-value."
)
ASSUMPTIONS = [
    "python-multipart is absent in this sandbox: the FastAPI POST leg parses its urlencoded body through a harness stand-in for that package's QuerystringParser (rtmon/standin_multipart.py, trusted base of that leg only; the real package is used when importable)",
    "q=0, wildcards, media-type parameters and repeated media types are outside the header grammar the property defines",
    "IRI validity restated: none of <>\" {}|\\^` and no control characters",
]

OWL_SAMEAS = "http://www.w3.org/2002/07/owl#sameAs"
SKOS_EXACT = "http://www.w3.org/2004/02/skos/core#exactMatch"
FOREIGN = "http://www.w3.org/2000/01/rdf-schema#seeAlso"
UBASE = ["http://x.org/", "http://x.org/a_", "https://id.org/go:", "http://purl.org/obo/GO_", "http://x.org/a/", "urn:x:", "http://y.org/q?id=", "http://é.org/", "http://purl.org/obo/", "http://x.org/a_b_", "http://e\u0301.org/", "http://x.org/cafe\u0301/",
         # (percent escapes are characters of the URI like any other: what the transport decodes once must not be decoded twice -
         #  seed C18-T)
         "http://y.org/ols?iri=http%3A%2F%2Fx.org%2Fobo%2FGO_"]
IDS = ["1", "0001", "a/b", "x#y", "é", "A_1", "", "Cafe\u0301", "\u2126", "\u212b1", "Caf%C3%A9", "AC%2FDC", "a%20b", "100%25"]
TYPES = list(CANON) + ["text/html", "application/rdf+xml", "text/plain", "application/ld+json", "image/png"]


def valid_iri(s):
    return not any(c in '<>" {}|\\^`' or ord(c) < 32 for c in s)


def gen_header(rng):
    n = rng.randint(1, 5)
    types_ = rng.sample(TYPES, k=n)
    parts = []
    ws = lambda: rng.choice(["", "", " ", "  ", "\t"])  # noqa: E731
    has_q = has_ws = False
    for t in types_:
        p = t
        if rng.random() < 0.6:
            q = rng.choice(["0.9", "0.8", "0.5", "0.1", "1", "1.0", "0.75", "0.001", "0.30", "0", "0.0", "0.000", "1.000"])
            a, b = ws(), ws()
            p += a + ";" + b + "q=" + q
            has_q = True
            has_ws |= bool(a or b)
        parts.append(p)
    if rng.random() < 0.06:
        # a long header (a browser extension, a proxy or a generated client listing dozens of media types the service does
        # not produce): the supported types somewhere among them still decide (seed C18-W: only the first N ranges read)
        k = rng.choice([31, 32, 33, 40, 100, 250])
        filler = [f"application/x-other{i}+zip" + rng.choice(["", ";q=0.9", ";q=1", ";q=0.2"]) for i in range(k)]
        cut = rng.choice([0, k, k, rng.randint(0, k)])
        parts = filler[cut:] + parts[:1] + filler[:cut] + parts[1:]
        n += k
    out = ""
    for i, p in enumerate(parts):
        if i:
            a, b = ws(), rng.choice(["", " ", " "])
            out += a + "," + b
            has_ws |= bool(a or b)
        out += p
    return out, n, has_q, has_ws


def parse_body(ctype, text):
    base = ctype.split(";")[0].strip()
    if base == "application/sparql-results+json":
        data = json.loads(text)
        return [{k: v["value"] for k, v in b.items()} for b in data["results"]["bindings"]]
    if base == "application/sparql-results+xml":
        ns = "{http://www.w3.org/2005/sparql-results#}"
        root = ET.fromstring(text)
        out = []
        for res in root.find(ns + "results"):
            out.append({b.attrib["name"]: (b.find(ns + "uri").text or "") for b in res})
        return out
    if base == "application/sparql-results+csv":
        rows = list(csv.reader(io.StringIO(text, newline="")))
        return [dict(zip(rows[0], r)) for r in rows[1:]]
    raise ValueError(f"unexpected content type {ctype}")


def setup(ctx):
    import logging

    from .. import standin_multipart

    logging.disable(logging.CRITICAL)
    ctx.real_multipart = standin_multipart.install()


def run_case(ctx, g, rng):
    from curies.mapping_service import MappingServiceGraph, MappingServiceSPARQLProcessor, get_fastapi_mapping_app, get_flask_mapping_app
    from curies.mapping_service.utils import handle_header
    from starlette.testclient import TestClient

    api, S = ctx.api, probe.S
    ups = rng.sample(UBASE, k=len(UBASE))
    recs = []
    for i in range(rng.randint(1, 3)):
        u = ups.pop()
        us = tuple(ups.pop() for _ in range(rng.choice([0, 1, 1, 2])) if len(ups) > 2)
        # (a record may carry a pattern - documentation of what identifiers look like; no answer depends on it, seed C18-R)
        recs.append(spec.Rec(f"p{i}", u, (f"P{i}",) if rng.random() < 0.4 else (), us, rng.choice([None, None, "^\\d{7}$", "^\\d+$", "^x$"])))
    # "for every converter": the converter's CURIE delimiter is its own business - the service speaks URIs (seed C18-Q: a
    # reference written with ':' and re-parsed with the converter's delimiter); with another delimiter a prefix may
    # contain a colon
    d = rng.choice([":", ":", ":", "/", "_", "::"])
    if d not in (":", "::") and rng.random() < 0.5:
        recs[0] = recs[0]._replace(prefix="ns:" + recs[0].prefix)
    S.counters[f"wl:converter-delimiter:{d}"] += 1
    conv, how = gen.build(api, recs, d, rng)  # constructed, registered record by record, or grown through merges
    S.counters[f"wl:build:{how}"] += 1
    last = {}
    sp = spec.SpecConverter(recs, d)
    w0 = {"records": [spec.rec_dict(r) for r in recs]}
    preds = rng.choice([None, None, None, [OWL_SAMEAS, SKOS_EXACT], SKOS_EXACT])
    conf = [OWL_SAMEAS] if preds is None else [preds] if isinstance(preds, str) else preds
    graph = MappingServiceGraph(converter=conv, predicates=preds)
    processor = MappingServiceSPARQLProcessor(graph=graph)
    if preds is None and rng.random() < 0.5:
        # another service in the same process, configured by its owner for one more predicate after it was built:
        # this one is still configured for the default predicate only
        import rdflib

        neighbour = MappingServiceGraph(converter=api.Converter.from_prefix_map({"zzn": "http://zz.n/"}))
        qp = getattr(neighbour, "query_predicates", None)
        if isinstance(qp, set):
            qp.add(rdflib.URIRef(FOREIGN))
            S.counters["wl:neighbouring-service-reconfigured"] += 1
    allu = [u for r in recs for u in spec.all_u(r)]

    def make_query():
        sp = spec.SpecConverter(list(spec.snapshot(conv)), d)
        k = rng.randint(1, 3)
        uris = []
        for _ in range(k):
            nested = [b for b in allu if any(a != b and b.startswith(a) for a in allu)]
            if nested and rng.random() < 0.25:
                u = rng.choice(nested) + rng.choice(["", "", "1"])  # a registered URI prefix inside another one, often bare
            elif rng.random() < 0.15:
                # identifiers.org style: the local identifier repeats a prefix or synonym of the record ("…/chebi/CHEBI:1234")
                # or of another record, or is a whole CURIE / URI - an identifier like any other (seed C18-P)
                cur = list(spec.snapshot(conv))
                r_ = rng.choice(cur)
                inner = rng.choice(spec.all_p(rng.choice([r_, r_, rng.choice(cur)]))) + rng.choice([":", ":", "_", "/"]) + rng.choice(["1", "0001", ""])
                u = rng.choice(spec.all_u(r_)) + rng.choice([inner, inner, rng.choice(allu) + "1"])
                S.counters["wl:identifiers-that-repeat-a-prefix"] += 1
            else:
                u = (rng.choice(allu) + rng.choice(IDS)) if rng.random() < 0.75 else "http://unknown.org/" + rng.choice(IDS[:3])
            if valid_iri(u) and u not in uris:
                uris.append(u)
        direction = rng.choice(["s", "o"])
        inside = rng.random() < 0.5
        pred = rng.choice(conf) if rng.random() < 0.8 else FOREIGN
        sv, ov = rng.choice([("s", "o"), ("s", "o"), ("x", "y"), ("subject", "object")])
        bound = sv if direction == "s" else ov
        if rng.random() < 0.25:
            values = f"VALUES (?{bound}) {{ " + " ".join(f"(<{u}>)" for u in uris) + " }"
        else:
            values = f"VALUES ?{bound} {{ " + " ".join(f"<{u}>" for u in uris) + " }"
        form = rng.choice(["plain", "plain", "star", "distinct", "prefix-decl", "order-by", "dot"])
        select = {"star": "SELECT *", "distinct": f"SELECT DISTINCT ?{sv} ?{ov}"}.get(form, f"SELECT ?{sv} ?{ov}")
        ptxt, head = f"<{pred}>", ""
        if form == "prefix-decl":
            cut = max(pred.rfind("#"), pred.rfind("/")) + 1
            head, ptxt = f"PREFIX pp: <{pred[:cut]}> ", "pp:" + pred[cut:]
        tail = f" ORDER BY ?{ov}" if form == "order-by" else ""
        dot = " ." if form == "dot" else ""
        if inside:
            place = rng.choice(["first", "last", "nested"])
            if place == "first":
                q = f"{head}{select} WHERE {{ {values} ?{sv} {ptxt} ?{ov}{dot} }}{tail}"
            elif place == "last":
                q = f"{head}{select} WHERE {{ ?{sv} {ptxt} ?{ov} . {values} }}{tail}"
            else:
                q = f"{head}{select} WHERE {{ {{ {values} }} ?{sv} {ptxt} ?{ov}{dot} }}{tail}"
        else:
            q = f"{head}{select} WHERE {{ ?{sv} {ptxt} ?{ov}{dot} }}{tail} {values}"
        S.counters[f"wl:query-form:{form}:{'inside' if inside else 'after'}"] += 1
        exp = []
        if pred in conf:
            for u in uris:
                c = sp.compress(u)
                if c is None:
                    continue
                for x in sp.expand_all(c):
                    if valid_iri(x):
                        exp.append((u, x) if direction == "s" else (x, u))
        # the property as stated: the library's own expand_all(compress(u)) on plain strings (unmonitored calls)
        real = []
        if pred in conf:
            with probe.monitor_mode():
                for u in uris:
                    c = conv.compress(u)
                    if c is None:
                        continue
                    for x in conv.expand_all(c) or []:
                        if valid_iri(x):
                            real.append((u, x) if direction == "s" else (x, u))
        last["real"] = real
        cls = set()
        for u in uris:
            o = sp.uri_owner(u)
            if o is None:
                cls.add("unrec")
            else:
                cls.add(("syn" if o[0] != o[1].uri_prefix else "canon") + ("+multi" if o[1].usyn else ""))
            if len(sp.uri_matches(u)) > 1:
                cls.add("nested")
        if form == "distinct":
            exp = sorted(set(exp))
        return q, exp, direction, inside, pred in conf, cls, (sv, ov)

    def compare(monitor, leg, q, exp, got, extra=None):
        evaluated(monitor)
        # "returns exactly the ... members": membership; how often a member is repeated is not promised (with several
        # configured predicates every member comes once per predicate, and two URI prefixes can render the same URI)
        ok = set(got) == set(exp)
        if ok and len(conf) == 1 and collections.Counter(got) != collections.Counter(exp):
            S.counters["wl:bindings-equal-as-sets-but-not-as-multisets"] += 1
        if not ok:
            violation(["C18"], monitor, "bindings-differ-from-expand_all-of-compress", leg=leg, query=q, expected=sorted(exp), observed=sorted(got),
                      configured_predicates=conf, **(extra or {}), **w0)
        elif set(got) != set(last["real"]):
            violation(["C18"], monitor, "bindings-differ-from-the-converter's-own-expand_all-of-compress", leg=leg, query=q,
                      expected=sorted(last["real"]), observed=sorted(got), configured_predicates=conf, **(extra or {}), **w0)

    # (a) graph level
    for qi in range(8):
        if qi == 5 and g % 2 == 0:
            # the converter behind the live graph grows: a URI-prefix synonym merged into an existing record
            # (one that has usually been queried already) and a brand-new record
            r0 = recs[0]
            call(conv.add_prefix, r0.prefix, r0.uri_prefix, None, [ups.pop()], merge=True)
            call(conv.add_prefix, "late", "http://late.org/")
            recs[:] = list(spec.snapshot(conv))
            sp = spec.SpecConverter(recs, d)
            allu[:] = [u for r in recs for u in spec.all_u(r)]
            w0["records"] = [spec.rec_dict(r) for r in recs]
            w0["grown_while_serving"] = True
            S.counters["wl:converters-grown-while-serving"] += 1
        q, exp, direction, inside, configured, cls, uris = make_query()
        spelling = rng.choice(["text", "text", "prepared"])
        S.counters[f"wl:graph-query-handed-over-as:{spelling}"] += 1
        if spelling == "prepared":
            # Graph.query and the processor accept `str | Query`: the same query, parsed and translated by the caller
            from rdflib.plugins.sparql import prepareQuery

            pq = call(prepareQuery, q)
            o = call(graph.query, pq[1], processor=processor) if pq[0] == "ret" else call(graph.query, q, processor=processor)
        else:
            o = call(graph.query, q, processor=processor)
        if o[0] == "raise":
            evaluated("mapping:graph")
            violation(["C18"], "mapping:graph", "query-raises", query=q, observed=o[1], **w0)
            continue
        sv, ov = uris
        got = [(str(r[sv]), str(r[ov])) for r in o[1]]
        compare("mapping:graph", "graph", q, exp, got)
        nontrivial = any(c.startswith("syn") and "multi" in c for c in cls)
        probe.note_key(f"graph:{direction}:{'in' if inside else 'after'}:{'conf' if configured else 'foreign'}:{'+'.join(sorted(cls))}:p{len(conf)}", nontrivial)
        S.counters["wl:graph-queries"] += 1
    # (a') the prefix of the predicate is bound by the caller (initNs), not declared in the text: the same text asked
    # with the configured vocabulary and with a foreign one - each answer follows the bindings of its own call
    if allu:
        import rdflib

        for _ in range(2):
            u = rng.choice(allu) + rng.choice(["1", "0001"])
            if not valid_iri(u):
                continue
            pred = conf[0]
            cut = max(pred.rfind("#"), pred.rfind("/")) + 1
            text = f"SELECT ?s ?o WHERE {{ VALUES ?s {{ <{u}> }} ?s zzp:{pred[cut:]} ?o }}"
            sp_now = spec.SpecConverter(list(spec.snapshot(conv)), d)
            cu = sp_now.compress(u)
            want_conf = [(u, x) for x in (sp_now.expand_all(cu) or []) if valid_iri(x)] if cu is not None else []
            order = [(pred[:cut], want_conf), ("http://zz.foreign/vocab#", [])]
            if rng.random() < 0.5:
                order.reverse()
            for ns_, want_ in order:
                o = call(graph.query, text, processor=processor, initNs={"zzp": rdflib.Namespace(ns_)})
                evaluated("mapping:graph")
                if o[0] == "raise":
                    violation(["C18"], "mapping:graph", "query-raises", query=text, init_ns=ns_, observed=o[1], **w0)
                    continue
                got = [(str(r["s"]), str(r["o"])) for r in o[1]]
                if set(got) != set(want_):
                    violation(["C18"], "mapping:graph", "bindings-differ-from-expand_all-of-compress", leg="graph (prefix bound through initNs)", query=text,
                              init_ns=ns_, expected=sorted(want_), observed=sorted(got), configured_predicates=conf, **w0)
            S.counters["wl:graph-queries-with-initNs"] += 2
    # (b) web legs
    fl = fa = None
    if preds is None:
        entry = rng.choice(["app", "app", "mounted"])
        S.counters[f"wl:entry-point:{entry}"] += 1
        if entry == "app":
            fl = get_flask_mapping_app(conv).test_client()
            fa = TestClient(get_fastapi_mapping_app(conv))
        else:
            # the blueprint / router mounted on an app of the user's own, as their documentation describes
            import fastapi
            import flask
            from curies.mapping_service import get_fastapi_router, get_flask_mapping_blueprint

            own = flask.Flask("users_own_app")
            own.register_blueprint(get_flask_mapping_blueprint(conv))
            fl = own.test_client()
            own2 = fastapi.FastAPI()
            own2.include_router(get_fastapi_router(conv))
            fa = TestClient(own2)
    if fl is not None:
        conf = [OWL_SAMEAS]
        for wi in range(4):
            if wi == 2 and g % 2 == 1:
                # the same growth, this time while the web apps are serving
                r0 = recs[0]
                call(conv.add_prefix, r0.prefix, r0.uri_prefix, None, [ups.pop()], merge=True)
                call(conv.add_prefix, "late", "http://late.org/")
                recs[:] = list(spec.snapshot(conv))
                allu[:] = [u for r in recs for u in spec.all_u(r)]
                w0["records"] = [spec.rec_dict(r) for r in recs]
                w0["grown_while_serving"] = True
                S.counters["wl:converters-grown-while-serving"] += 1
            q, exp, direction, inside, configured, cls, uris = make_query()
            header, n, has_q, has_ws = gen_header(rng)
            acceptable = negotiate(header)
            legs = [
                ("flask-get", lambda: fl.get("/sparql", query_string={"query": q}, headers={"accept": header})),
                ("flask-post", lambda: fl.post("/sparql", data={"query": q}, headers={"accept": header})),
                ("fastapi-get", lambda: fa.get("/sparql", params={"query": q}, headers={"accept": header})),
            ]
            legs.append(("fastapi-post", lambda: fa.post("/sparql", data={"query": q}, headers={"accept": header})))
            for leg, f in legs:
                o = call(f)
                S.counters[f"wl:web:{leg}"] += 1
                if o[0] == "raise":
                    evaluated("mapping:web")
                    violation(["C18"], "mapping:web", "request-raises", leg=leg, query=q, accept=header, observed=o[1], **w0)
                    continue
                r = o[1]
                text = r.get_data(as_text=True) if leg.startswith("flask") else r.text
                ctype = r.headers.get("content-type", "")
                if r.status_code != 200:
                    evaluated("mapping:web")
                    violation(["C18"], "mapping:web", "non-200-answer", leg=leg, status=r.status_code, query=q, accept=header, body=text[:300], **w0)
                    continue
                evaluated("mapping:content-type")
                if acceptable is not None and ctype.split(";")[0].strip() not in acceptable:
                    mech = "served-content-type-not-the-negotiated-one"
                    if has_ws:
                        k2, v2 = call(handle_header, header.replace(" ", "").replace("\t", ""))
                        if k2 == "ret" and v2 in acceptable:
                            mech = "optional-whitespace-in-accept-header"
                    violation(["C18"], "mapping:content-type", mech, leg=leg, accept=header, expected=sorted(acceptable), served=ctype, **w0)
                try:
                    rows = parse_body(ctype, text)
                    got = [(b.get(uris[0], ""), b.get(uris[1], "")) for b in rows]
                except Exception as e:  # noqa: BLE001
                    evaluated("mapping:web")
                    violation(["C18"], "mapping:web", "body-not-parseable-as-served-content-type", leg=leg, content_type=ctype, error=repr(e), body=text[:300], **w0)
                    continue
                compare("mapping:web", leg, q, exp, got, {"accept": header, "content_type": ctype})
                nontrivial = any(c.startswith("syn") and "multi" in c for c in cls) or has_ws or has_q
                probe.note_key(f"web:{leg}:{direction}:{'in' if inside else 'after'}:{'conf' if configured else 'foreign'}:{ctype.split(';')[0][-4:]}:q{int(has_q)}w{int(has_ws)}", nontrivial)
    # (c) negotiation, directly
    for _ in range(25):
        header, n, has_q, has_ws = gen_header(rng)
        o = call(handle_header, header)
        acc = negotiate(header)
        res = "default" if acc == {DEFAULT} and not any(t in header for t in ("xml",)) else "negotiated"
        probe.note_key(f"header:n{n}:q{int(has_q)}:w{int(has_ws)}:{res}:tie{int(acc is not None and len(acc) > 1)}", has_q or has_ws)
        S.counters["wl:headers"] += 1
    call(handle_header, None)
    call(handle_header, "")
    if g % 37 == 0:
        header, *_ = gen_header(rng)
        q, exp, *_ = make_query()
        probe.sample({**w0, "query": q, "expected_bindings": exp, "accept": header, "handle_header": call(handle_header, header)[1]})

"""C02 CURIE expansion resolves any prefix or synonym to the canonical URI prefix."""

from __future__ import annotations

from .. import smallworld, gen, probe, spec
from ..probe import violation
from .common import growth_sweep, long_lived, change_delimiter_mid_life, scale_leg, call, grow_while_asking

PROP = "C02"
LEVEL = "exploration"
CASES = {"quick": 640, "thorough": 128000}
SHARDS = {"quick": 8, "thorough": 16}
ANCHORS = [
    "api.py:_split", "api.py:Converter.parse_curie", "api.py:Converter.standardize_prefix",
    "api.py:Converter.expand_reference", "api.py:Converter.expand_pair", "api.py:Converter.expand_all",
    "api.py:Converter.expand_pair_all", "api.py:Converter.expand", "api.py:Converter.is_curie",
]
DECIDING = [
    "query-model:expand", "query-model:expand_pair", "query-model:expand_reference", "query-model:expand_all",
    "query-model:expand_pair_all", "query-model:is_curie", "pair-forms-agree",
]
RULE = (
    "case = random clash-free record set whose CURIE prefixes do not contain the case's delimiter (often with the "
    "empty prefix as canonical prefix or synonym, case-variant and substring synonyms; one case in six is built with "
    "Converter.from_rdflib from a graph with a default namespace; one in three is registered record by record while its "
    "CURIEs are already being expanded), delimiters ':', '/', '::', '_', '|'; every known "
    "prefix, synonym and some unknown ones are combined with identifiers (empty, containing the delimiter, '/', '#', "
    "blank, Unicode). Every expand* / is_curie return is compared with the model (split at first delimiter, resolve, "
    "canonical URI prefix + untouched remainder; expand_all = canonical first then one per URI synonym), and the "
    "string, pair and reference forms must agree. key = how the prefix resolves (canonical/synonym/empty/unknown) x "
    "identifier class x delimiter class x number of URI synonyms; non-trivial = resolution through a synonym or the "
    "empty prefix, or the identifier contains the delimiter."
)
ASSUMPTIONS = ["reference model rtmon.spec.SpecConverter", "prefixes never contain the converter's delimiter (the property's quantifier)"]


def setup(ctx):
    import rdflib

    ctx.rdflib = rdflib


def run_case(ctx, g, rng):
    api = ctx.api
    if smallworld.active(ctx, g):
        for c_, recs_, d_ in smallworld.chunk(ctx, g):
            for q in smallworld.queries(ctx.tier, d_):
                call(c_.expand, q)
                call(c_.expand_all, q)
                call(c_.is_curie, q)
                call(c_.parse_curie, q)
                i_ = q.find(d_)
                if i_ >= 0:
                    p_, x_ = q[:i_], q[i_ + len(d_):]
                    call(c_.expand_pair, p_, x_)
                    call(c_.expand_pair_all, p_, x_)
                    call(c_.expand_reference, api.ReferenceTuple(p_, x_))
        probe.note_key(f"curie-small-world:chunk{g % 40}", True)
    scale_leg(ctx, rng, rng.choice([":", ":", "/", "::"]), modes=False, g=g)
    growth_sweep(ctx, rng, rng.choice([":", ":", "/"]), g)
    long_lived(ctx, rng, rng.choice([":", "/"]), g)
    S = probe.S
    if g % 6 == 5:
        d = ":"
        graph = ctx.rdflib.Graph(bind_namespaces="none")
        names = rng.sample(["", "a", "b", "GO", "ab", "x1"], k=rng.randint(1, 4))
        if rng.random() < 0.7 and "" not in names:
            names[0] = ""
        nss = rng.sample(["http://x/", "http://x/a_", "http://y#", "urn:x:", "http://x/a/"], k=len(names))
        for p, ns in zip(names, nss):
            graph.bind(p, ns)
        src = graph if rng.random() < 0.5 else graph.namespace_manager
        c = api.Converter.from_rdflib(src)
        recs = list(spec.snapshot(c))
        how = "rdflib"
    else:
        d = rng.choice(gen.DELIMS)
        recs = gen.records(rng, d, 0, 5)
        if rng.random() < 0.5 and recs and not any("" in spec.all_p(r) for r in recs):
            i = rng.randrange(len(recs))
            r = recs[i]
            recs[i] = r._replace(prefix="", psyn=r.psyn + (r.prefix,)) if rng.random() < 0.5 else r._replace(psyn=r.psyn + ("",))
        if g % 3 == 1:
            # CURIEs of the final map are already expanded while the map is still being registered
            strings = [p + d + "1" for r in recs for p in spec.all_p(r)] + [p for r in recs for p in spec.all_p(r)[:1]]

            def ask(cc, s):
                # every entry point of the property, not just the string forms: a lookup that remembers a miss may sit
                # behind one of them only (seed C02-O: get_record behind expand_pair_all)
                call(cc.expand, s)
                call(cc.expand_all, s)
                call(cc.is_curie, s)
                call(cc.standardize_prefix, s)
                call(cc.parse_curie, s)
                i0 = s.find(d)
                p0, id0 = (s[:i0], s[i0 + len(d):]) if i0 >= 0 else (s, "1")
                call(cc.expand_pair, p0, id0)
                call(cc.expand_pair_all, p0, id0)
                call(cc.expand_reference, api.ReferenceTuple(p0, id0))
                call(cc.get_record, p0)

            c, how = grow_while_asking(api, recs, d, rng, ask, strings), "asked-while-growing"
        else:
            c, how = gen.build(api, recs, d, rng)
    sp = spec.SpecConverter(recs, d)
    S.counters[f"wl:build:{how}"] += 1
    prefixes = [p for r in recs for p in spec.all_p(r)] + ["nope", "NOPE" + d[:0], rng.choice(gen.UNICODE), *gen.SPECIAL_PREFIXES]
    prefixes += [p.swapcase() for p in prefixes[:3]] + [p[:-1] for p in prefixes[:3] if p]
    ids = rng.sample(gen.IDS, k=5) + [d, "x" + d + "y", d + "x", rng.choice(gen.UNICODE), ""]
    seen = set()
    for p in prefixes:
        if d in p:
            continue
        o = sp.prefix_owner(p)
        res = "unknown" if o is None else "empty" if p == "" else "canonical" if p == o.prefix else "synonym"
        if o is not None and o.prefix == "":
            res += "-of-empty"
        for i in ids:
            if (p, i) in seen:
                continue
            seen.add((p, i))
            curie = p + d + i
            a = call(c.expand, curie)
            b = call(c.expand_pair, p, i)
            e = call(c.expand_reference, api.ReferenceTuple(p, i))
            al = call(c.expand_all, curie)
            bl = call(c.expand_pair_all, p, i)
            call(c.is_curie, curie)
            call(c.parse_curie, curie)
            call(c.standardize_prefix, p)
            if curie.find(d) != len(p):
                # e.g. prefix "GO:" with delimiter "::": the string form legitimately splits earlier
                S.counters["wl:string-form-splits-earlier"] += 1
                continue
            probe.evaluated("pair-forms-agree")
            if not (probe.okey(a) == probe.okey(b) == probe.okey(e)) or probe.okey(al) != probe.okey(bl):
                violation(["C02"], "pair-forms-agree", "string-pair-reference-forms-disagree",
                          records=[spec.rec_dict(r) for r in recs], delimiter=d, prefix=p, identifier=i,
                          expand=a, expand_pair=b, expand_reference=e, expand_all=al, expand_pair_all=bl)
            icls = "delim" if d in i else "empty" if i == "" else "other"
            nsyn = 0 if o is None else min(len(o.usyn), 2)
            nontrivial = res.startswith(("synonym", "empty")) or res.endswith("-of-empty") or d in i
            probe.note_key(f"{res}:{icls}:{'colon' if d == ':' else 'd' + str(len(d))}:u{nsyn}:{how == 'rdflib'}", nontrivial)
            S.counters["wl:curies"] += 1
    if g % 5 == 1 and how != "rdflib":
        def ask2(cc, q):
            call(cc.expand, q)
            call(cc.expand_all, q)
            call(cc.is_curie, q)
            i2 = q.find(cc.delimiter)
            if i2 >= 0:
                call(cc.expand_pair, q[:i2], q[i2 + len(cc.delimiter):])

        change_delimiter_mid_life(c, [p + d + i for p in prefixes[:4] for i in ids[:3]], rng, ask2)
    # used as an input of derivations whose results are modified; then asked again (against its own records)
    if recs and g % 4 == 2 and d == ":" and how != "rdflib":
        r0 = rng.choice(recs)
        other = api.Converter([api.Record(prefix="zzp", uri_prefix=r0.uri_prefix, prefix_synonyms=["zzsyn"], uri_prefix_synonyms=["http://zz.syn/"])])
        call(api.chain, [c, other])
        so = call(c.get_subconverter, [r0.prefix])
        if so[0] == "ret":
            call(so[1].add_prefix, r0.prefix, r0.uri_prefix, ["zzsyn2"], ["http://zz.syn2/"], merge=True)
        for p in ["zzp", "zzsyn", "zzsyn2", *spec.all_p(r0)]:
            call(c.expand, p + d + "1")
            call(c.expand_pair, p, "1")
            call(c.expand_all, p + d + "1")
            call(c.expand_pair_all, p, "1")
        S.counters["wl:asked-again-after-being-derived-from"] += 1
    if g % 131 == 0:
        q = prefixes[0] + d + "x" + d + "y"
        probe.sample({"records": [spec.rec_dict(r) for r in recs], "delimiter": d, "built": how, "curie": q,
                      "expand": call(c.expand, q), "expand_all": call(c.expand_all, q)})


def EXHAUSTIVE(tier, counters):
    return smallworld.exhaustive(tier, counters)

"""C01 URI compression always picks the longest registered URI prefix."""

from __future__ import annotations

import itertools

from .. import gen, probe, spec
from ..probe import violation
from .common import growth_sweep, long_lived, call

PROP = "C01"
LEVEL = "exploration"
CASES = {"quick": 480, "thorough": 24000}
SHARDS = {"quick": 8, "thorough": 16}
ANCHORS = [
    "api.py:Converter.parse_uri", "api.py:Converter.__init__", "api.py:Converter._index",
    "api.py:Converter.compress", "api.py:Converter.is_uri",
]
DECIDING = ["query-model:parse_uri", "query-model:compress", "query-model:is_uri", "order-independence"]
RULE = (
    "case = random clash-free record set (0-6 records, URI prefixes from a nesting/sibling/case-variant "
    "lattice incl. the empty prefix, any delimiter) built by constructor or add_record in a random order, "
    "queried with boundary strings derived from it; every parse_uri/compress/is_uri return is compared with a "
    "linear-scan longest-prefix model, and the same record set is rebuilt in other permutations (all of them up "
    "to 3 records, sampled above) to compare answers; every 16th case is a map of 20-80 records whose URI prefixes form a "
    "deep random tree; in addition a bounded world is enumerated: every assignment of at most 3 of the 15 strings over "
    "{a, b} of length <= 3 (the empty string included) to at most 3 records as canonical URI prefix or synonym, each asked "
    "every string over {a, b} of length <= 4 (thorough: the whole world, coverage.small_world_exhaustive; quick: every "
    "8th chunk); in every second case the record set is also registered step by "
    "step (URI synonyms sometimes arriving later through a merge) while the same boundary strings are asked before and "
    "after every registration. A key = overlap-forest shape + query class + build "
    "method; non-trivial = at least 2 registered prefixes match the query (a real longest-match decision) or "
    "the query is a registered prefix, one character short of one, or one character past one."
)
ASSUMPTIONS = [
    "reference model rtmon.spec.SpecConverter (linear scan over records) is the meaning of 'longest registered URI prefix'",
    "CPython str.startswith / slicing",
]


def qclass(sp, q, allu):
    m = len(sp.uri_matches(q))
    if m >= 2:
        return f"multi{min(m, 4)}"
    if q in allu:
        return "exact"
    if any(u and q == u[:-1] for u in allu):
        return "short"
    if any(len(q) == len(u) + 1 and q.startswith(u) for u in allu):
        return "past"
    return None


# ---- bounded-exhaustive small world ------------------------------------------------------------------------------
# every way of giving at most 3 of the 15 strings over {a, b} of length <= 3 (the empty one included) to at most 3
# records as canonical URI prefix or URI synonym, asked every string over {a, b} of length <= 4: all overlap lattices
# that three URI prefixes over a binary alphabet can form
SMALL_U = [""] + ["".join(t) for k in (1, 2, 3) for t in itertools.product("ab", repeat=k)]
SMALL_Q = [""] + ["".join(t) for k in (1, 2, 3, 4) for t in itertools.product("ab", repeat=k)]


def _partitions(items):
    if not items:
        yield []
        return
    first, rest = items[0], items[1:]
    for part in _partitions(rest):
        yield [[first]] + part
        for i in range(len(part)):
            yield part[:i] + [[first] + part[i]] + part[i + 1:]


def small_world():
    """All (tuple of records) in the bounded space; a record = (first = canonical URI prefix, rest = synonyms)."""
    out = []
    for k in (1, 2, 3):
        for subset in itertools.combinations(SMALL_U, k):
            for part in _partitions(list(subset)):
                # each block: every choice of canonical element
                for canon in itertools.product(*[range(len(b)) for b in part]):
                    recs = []
                    for i, (b, c) in enumerate(zip(part, canon)):
                        recs.append(spec.Rec(f"p{i}", b[c], (), tuple(x for j, x in enumerate(b) if j != c), None))
                    out.append(tuple(recs))
    return out


_SMALL = None
SMALL_CHUNK = 150


def n_small_chunks():
    global _SMALL
    if _SMALL is None:
        _SMALL = small_world()
    return -(-len(_SMALL) // SMALL_CHUNK)


def small_world_case(ctx, g):
    api = ctx.api
    world = _SMALL
    for recs in world[g * SMALL_CHUNK:(g + 1) * SMALL_CHUNK]:
        c = api.Converter([gen.mk_record(api, r) for r in recs])
        sp = spec.SpecConverter(recs, ":")
        for q in SMALL_Q:
            call(c.parse_uri, q, return_none=True)
            call(c.compress, q)
            call(c.is_uri, q)
        probe.S.counters["wl:small-world-converters"] += 1
        probe.note_key(f"small:{gen.overlap_shape(recs)}", len(recs) >= 2 or len(spec.all_u(recs[0])) >= 2)
    probe.evaluated("order-independence", 0)


def run_case(ctx, g, rng):
    api = ctx.api
    growth_sweep(ctx, rng, rng.choice([":", ":", "/"]), g)
    long_lived(ctx, rng, rng.choice([":", "/"]), g)
    if g < n_small_chunks() and (ctx.tier == "thorough" or g % 8 == 0):
        small_world_case(ctx, g)
    d = rng.choice(gen.DELIMS)
    if g % 17 == 16:  # (a modulus coprime to the shard counts: these heavier cases spread over all shards)
        return big_map_case(ctx, g, rng, d)
    recs = gen.records(rng, d, 0, 6, allow_delim=rng.random() < 0.2)
    if g % 9 == 4:
        # the map arrives as a priority map or a reverse prefix map (entries shuffled): "independent of the order in
        # which the records were supplied" holds for the order of a mapping's entries too (seed C01-S)
        recs = gen.loader_friendly(recs)
        c, how = gen.build(api, recs, d, rng, "via-loader")
    else:
        c, how = gen.build(api, recs, d, rng)
    sp = spec.SpecConverter(recs, d)
    allu = [u for r in recs for u in spec.all_u(r)]
    shape = gen.overlap_shape(recs)
    qs = gen.query_strings(recs, d, rng)
    answers = {}
    for q in qs:
        a1 = call(c.parse_uri, q, return_none=True)
        a2 = call(c.compress, q)
        a3 = call(c.is_uri, q)
        answers[q] = probe.okey((a1, a2, a3))
        k = qclass(sp, q, allu)
        probe.note_key(f"{shape}:{k}:{how}:{'d' if d != ':' else ':'}", nontrivial=k is not None)
    probe.S.counters["wl:converters"] += 1
    probe.S.counters[f"wl:build:{how}"] += 1
    probe.S.counters["wl:queries"] += len(qs)
    if g % 97 == 0:
        probe.sample({"records": [spec.rec_dict(r) for r in recs], "delimiter": d, "built": how,
                      "queries": qs[:6], "answers": [answers[q] for q in qs[:6]]})
    # order independence: the same record set, other permutations, both construction routes
    n = len(recs)
    if n >= 2:
        if n <= 3:
            perms = list(itertools.permutations(recs))
        else:
            k = 4 if ctx.tier == "quick" else 12
            perms = [rng.sample(recs, k=n) for _ in range(k)]
        bqs = [q for q in qs if qclass(sp, q, allu) is not None][:40]
        for perm in perms:
            for route in ("ctor", "incremental"):
                if route == "ctor":
                    c2 = api.Converter([gen.mk_record(api, r) for r in perm], delimiter=d)
                else:
                    c2 = api.Converter([], delimiter=d)
                    for r in perm:
                        c2.add_record(gen.mk_record(api, r))
                probe.S.counters["wl:permutation-builds"] += 1
                for q in bqs:
                    a = probe.okey((call(c2.parse_uri, q, return_none=True), call(c2.compress, q), call(c2.is_uri, q)))
                    probe.evaluated("order-independence")
                    if a != answers[q]:
                        violation(["C01"], "order-independence", "answer-depends-on-record-order",
                                  records=[spec.rec_dict(r) for r in recs], delimiter=d,
                                  order=[r.prefix for r in perm], route=route, query=q,
                                  first=answers[q], second=a)
    else:
        probe.evaluated("order-independence", 0)
    # the converter is used as an input of derivations, the derived converters are modified, and then it is asked again
    if n >= 1 and g % 4 == 1 and d == ":":
        r0 = rng.choice(recs)
        nested = r0.uri_prefix + "zz_"
        other = api.Converter([api.Record(prefix=r0.prefix, uri_prefix=nested, prefix_synonyms=["zzsyn"]),
                               api.Record(prefix="zzother", uri_prefix="http://zz.other/")])
        call(api.chain, [c, other])
        so = call(c.get_subconverter, [p for r in recs for p in spec.all_p(r)])
        if so[0] == "ret":
            call(so[1].add_record, api.Record(prefix="zzsyn2", uri_prefix=r0.uri_prefix + "yy_", prefix_synonyms=[r0.prefix]), merge=True)
        for q in [nested + "1", r0.uri_prefix + "yy_1", r0.uri_prefix + "1", *qs[:20]]:
            call(c.parse_uri, q, return_none=True)
            call(c.compress, q)
            call(c.is_uri, q)
        probe.S.counters["wl:asked-again-after-being-derived-from"] += 1
        probe.note_key(f"after-derivation:{shape}", True)
    # histories: the same strings are asked before and after every registration (a lookup that remembers an
    # answer from before a nested prefix or synonym arrived gives itself away only this way)
    if n >= 2 and g % 2 == 0:
        hq = [q for q in qs if qclass(sp, q, allu) is not None][:30] + qs[:6]
        c3 = api.Converter([], delimiter=d)
        order = rng.sample(recs, k=n)
        steps = []
        for r in order:
            if r.usyn and rng.random() < 0.5:  # canonical part first, the URI synonyms arrive later by merge
                steps.append((r._replace(usyn=()), False))
                us = list(dict.fromkeys(r.usyn))  # (a record may repeat one of its own synonyms)
                steps.append((r._replace(uri_prefix=us[0], usyn=tuple(us[1:]), psyn=()), True))
            else:
                steps.append((r, False))
        rng.shuffle(steps)
        seen_prefixes = set()
        for r, _ in steps:
            for q in hq:
                call(c3.compress, q)
                call(c3.parse_uri, q, return_none=True)
                call(c3.is_uri, q)
            merge = r.prefix in seen_prefixes
            call(c3.add_record, gen.mk_record(api, r), merge=merge)
            seen_prefixes.add(r.prefix)
            probe.S.counters["wl:history-steps"] += 1
        for q in hq:
            a = probe.okey((call(c3.parse_uri, q, return_none=True), call(c3.compress, q), call(c3.is_uri, q)))
            probe.evaluated("order-independence")
            if spec.is_unique(spec.snapshot(c3)) and sorted(map(spec.norm, spec.snapshot(c3)), key=repr) == sorted(map(spec.norm, recs), key=repr) and a != answers[q]:
                violation(["C01"], "order-independence", "answer-depends-on-queries-made-before-registration",
                          records=[spec.rec_dict(r) for r in recs], delimiter=d, query=q, first=answers[q], second=a,
                          steps=[spec.rec_dict(r) for r, _ in steps])
        probe.note_key(f"history:{shape}", True)


def big_map_case(ctx, g, rng, d):
    """20-80 records whose URI prefixes form a deep random tree: longest match among many candidates."""
    api = ctx.api
    n = rng.randint(20, 80)
    if rng.random() < 0.2:  # sometimes far above any plausible threshold
        n = rng.choice([300, 700, 1500]) if ctx.tier == "thorough" else 260
    nodes = ["http://x/", "https://y.org/ns#", "urn:z:"]
    while len(nodes) < n * 2:
        base = rng.choice(nodes)
        nodes.append(base + rng.choice("abcAB01_/#-") * rng.randint(1, 2))
        nodes = list(dict.fromkeys(nodes))
    rng.shuffle(nodes)
    recs = []
    for i in range(n):
        u = nodes.pop()
        usyn = tuple(nodes.pop() for _ in range(rng.choice([0, 0, 1, 2])) if len(nodes) > n - i)
        recs.append(spec.Rec(f"p{i}", u, (f"P{i}",) if i % 4 == 0 else (), usyn, None))
    c, how = gen.build(api, recs, d, rng, rng.choice(["ctor", "incremental", "mixed"]))
    sp = spec.SpecConverter(recs, d)
    allu = [u for r in recs for u in spec.all_u(r)]
    deepest = 0
    for u in rng.sample(allu, k=min(40, len(allu))):
        for q in (u, u + "1", u[:-1], u + rng.choice("abAB_/")):
            call(c.parse_uri, q, return_none=True)
            call(c.compress, q)
            call(c.is_uri, q)
            m = len(sp.uri_matches(q))
            deepest = max(deepest, m)
            probe.note_key(f"big:n{n // 20}:m{min(m, 6)}:{how}", m >= 2)
    probe.S.counters["wl:big-maps"] += 1
    probe.S.counters["wl:big-maps-deepest-nesting"] = max(probe.S.counters["wl:big-maps-deepest-nesting"], deepest)
    probe.evaluated("order-independence", 0)


def EXHAUSTIVE(tier, counters):
    n = counters.get("wl:small-world-converters", 0)
    total = len(_SMALL) if _SMALL is not None else len(small_world())
    return {
        "small_world_exhaustive": n == total,
        "explanation": f"{n} of {total} converters of the bounded world (<= 3 URI prefixes over {{a,b}}^<=3 in <= 3 records) built and asked all {len(SMALL_Q)} strings over {{a,b}}^<=4; "
                       "random cases beyond that are sampling",
    }

"""C19 discover returns a valid converter that compresses the URIs it learned from."""

from __future__ import annotations

from .. import gen, probe, spec
from ..mon_derive import is_github_issue
from .common import call

PROP = "C19"
LEVEL = "exploration"
CASES = {"quick": 2400, "thorough": 1200000}
SHARDS = {"quick": 8, "thorough": 16}
ANCHORS = ["discovery.py:discover", "discovery.py:_get_uri_prefix_to_luids"]
DECIDING = ["discover"]
RULE = (
    "bounded world: every string over 'x1/_#' up to length 4 as a single URI under four delimiter / cutoff configurations "
    "(quick and thorough) and every unordered pair of them (thorough) (coverage.small_world_exhaustive). Random part: "
    "case = a multiset of 0-10 URIs over a small alphabet (nested candidates such as x/ and x/a_, several delimiters in "
    "one URI, non-alphanumeric and empty tails, Unicode digits and letters, repetitions, rarely a GitHub issue URL), a "
    "delimiter list (default, single / multi-character, different priorities), cutoff None / 0..4, a metaprefix, and "
    "optionally a pre-existing converter recognising some of the URIs. The postcondition monitor demands a valid strict "
    "converter without synonyms, URI prefixes ending in one of the delimiters, names metaprefix1..n in sorted URI-prefix "
    "order, equality with the documented contract restated independently (first delimiter in priority order whose "
    "right-most split leaves an alphanumeric tail; kept iff >= cutoff distinct identifiers; URIs recognised by the given "
    "converter contribute nothing), round trip of every learned URI when no cutoff is given, and the same result for a "
    "shuffled list with repetitions (re-invoked by the monitor). key = delimiter-list class x cutoff x converter given x "
    "structural features of the URI set (nested prefixes, multi-delimiter URIs, rejected tails, duplicates, unicode); "
    "non-trivial = at least two features present or a converter / cutoff is given."
)
ASSUMPTIONS = ["str.isalnum() is 'alphanumeric'", "the empty-string delimiter is outside the domain (DESIGN 7.3)"]

HOSTS = ["https://x/", "https://x/a_", "http://x/", "http://x/a_", "http://x/a/", "http://y#", "http://x/b#", "z", "http://x/a_b/", "urn:x:", "http://x/a_b_", "", " http://x/", "\thttp://x/b#", " http://x/a_", "http://x/ ", "http://x/cafe\u0301/", "http://x/caf\u00e9/", "http://\u212b/"]
TAILS = ["1", "2", "3", "a1", "é", "a_1", "a-1", "", "x/1", "1#2", "٣", "b", "A", "1_2", "²", "e\u0301", "\u212b", "\u2126x",
         # (lines read from a file keep their newline: "item1\n" is not alphanumeric - seed C19-Q, '$' in a pattern)
         "1\n", "a1\n", "\n", "1\r\n", "1 ", "1\t"]
DELIMS = [None, None, ["/"], ["#", "/", "_"], ["_", "/"], ["a_", "/"], ["/", "#"], [":", "/"], ["_"], ["b#", "#", "_"], ["/ ", "/"], [" ", "#"]]


# ---- bounded-exhaustive small world: every set of <= 2 URIs over {x, 1, /, _, #} up to length 4 -----------------------
import itertools

SMALL_ALPH = "x1/_#"
SMALL_URIS = ["".join(t) for k in range(0, 5) for t in itertools.product(SMALL_ALPH, repeat=k)]
N_BASE = len(SMALL_URIS)  # pairs are enumerated over these
# singles only: every string up to length 4 over the same alphabet plus the blank that contains a blank
SMALL_URIS += [s for s in ("".join(t) for k in range(1, 5) for t in itertools.product(SMALL_ALPH + " ", repeat=k)) if " " in s]
SMALL_CHUNK = 700
SMALL_CONFIGS = [({}, "default"), ({"delimiters": ["_", "/"]}, "_/"), ({"delimiters": ["x/", "#"]}, "multi"), ({"cutoff": 2}, "cutoff2")]


def _n_small(tier):
    n = len(SMALL_URIS)
    return n if tier == "quick" else n + N_BASE * (N_BASE - 1) // 2


def small_world_case(ctx, g):
    import curies

    S = probe.S
    n = len(SMALL_URIS)
    lo, hi = g * SMALL_CHUNK, min((g + 1) * SMALL_CHUNK, _n_small(ctx.tier))
    for idx in range(lo, hi):
        if idx < n:
            uris = [SMALL_URIS[idx]]
        else:
            # idx - n enumerates unordered pairs
            k = idx - n
            i = int(((8 * k + 1) ** 0.5 + 1) / 2)
            while i * (i - 1) // 2 > k:
                i -= 1
            while (i + 1) * i // 2 <= k:
                i += 1
            j = k - i * (i - 1) // 2
            uris = [SMALL_URIS[i], SMALL_URIS[j]]
        kw, _name = SMALL_CONFIGS[idx % len(SMALL_CONFIGS)] if idx >= n else ({}, "default")
        call(curies.discover, uris, **kw)
        if idx < n:
            for kw2, _ in SMALL_CONFIGS[1:]:
                call(curies.discover, uris, **kw2)
        S.counters["wl:small-world-uri-sets"] += 1
    probe.note_key(f"small-world:chunk{g % 50}", True)


def EXHAUSTIVE(tier, counters):
    n = counters.get("wl:small-world-uri-sets", 0)
    total = _n_small(tier)
    return {
        "small_world_exhaustive": n == total,
        "explanation": f"{n} of {total} URI sets enumerated: every string over '{SMALL_ALPH}' up to length 4, and every such string that also contains blanks, alone (under 4 delimiter / cutoff configurations)"
                       + (" and every unordered pair of them (configurations in rotation)" if tier == "thorough" else "") + "; random multisets beyond that are sampling",
    }


def at_scale_case(ctx, g, rng):
    """thousands of URIs over dozens of prefixes (far above any plausible batch size), with and without cutoff"""
    import curies

    api, S = ctx.api, probe.S
    n = rng.choice([3000, 20000]) if ctx.tier == "thorough" else 1200
    # every other case at scale is *concentrated*: one to three prefixes with several hundred distinct identifiers each
    # and a cutoff in the hundreds (a cap on the identifiers remembered per prefix, a counter that saturates - seed C19-W)
    concentrated = (g // (307 if ctx.tier == "quick" else 2459)) % 2 == 0
    hosts = [f"http://h{i}/" + rng.choice(["", "a_", "b#", "c/d/"]) for i in range(rng.randint(1, 3) if concentrated else rng.randint(5, 60))]
    uris = [rng.choice(hosts) + rng.choice(["", "x"]) + str(rng.randint(0, 400)) for _ in range(n)]
    uris += [rng.choice(hosts) + "bad-tail!" for _ in range(20)]
    conv = None
    if rng.random() < 0.4:
        with probe.monitor_mode():
            conv = api.Converter([api.Record(prefix="k", uri_prefix=hosts[0]), api.Record(prefix="j", uri_prefix=hosts[-1] + "x")])
    kw = {"cutoff": rng.choice([257, 300, 340, 1000, None]) if concentrated else rng.choice([None, 1, 3, 50])}
    if conv is not None:
        kw["converter"] = conv
    o = call(curies.discover, rng.choice([uris, set(uris), iter(uris)]), **kw)
    if concentrated:
        S.counters["wl:at-scale:concentrated"] += 1
    if o[0] == "ret":
        for u in rng.sample(uris, k=20):
            call(o[1].compress, u)
    S.counters[f"wl:at-scale:n{n}"] += 1
    probe.note_key(f"at-scale:n{n}:c{kw['cutoff']}:k{int(conv is not None)}", True)


def run_case(ctx, g, rng):
    if g % (307 if ctx.tier == "quick" else 2459) == 306:
        return at_scale_case(ctx, g, rng)
    import curies

    api, S = ctx.api, probe.S
    if g * SMALL_CHUNK < _n_small(ctx.tier):
        small_world_case(ctx, g)
    uris = [rng.choice(HOSTS) + rng.choice(TAILS) for _ in range(rng.randint(0, 10))]
    if rng.random() < 0.2:
        uris += [f"http://zz.cur/{rng.randint(0, 6)}/" + rng.choice(["1", "2", "b1"]) for _ in range(2)]
    if rng.random() < 0.04 or g == 0:  # case 0 always carries the listed known finding's trigger
        uris.append("https://github.com/o/r/issues/" + rng.choice(["1", "22"]))
    if rng.random() < 0.06:
        # near misses of the special case behind the known finding (https://github.com ... issues): another scheme or
        # letter case, another host, no "issues" - none of them is skipped by the code as it stands, all must be discovered
        uris.append(rng.choice(["http://github.com/o/r/issues/", "HTTPS://github.com/o/r/issues/", "https://github.org/o/r/issues/",
                                "https://github.com/o/r/pulls/", "git://github.com/o/r/issues/"]) + rng.choice(["1", "22"]))
        S.counters["wl:near-misses-of-the-github-special-case"] += 1
    if uris and rng.random() < 0.4:
        uris += rng.sample(uris, k=min(2, len(uris)))
    delims = rng.choice(DELIMS)
    cutoff = rng.choice([None, None, None, 0, 1, 2, 3, 4])
    meta = rng.choice(["ns", "p", "x_", "ns1", "", "ns", " ns", "ns "])
    conv = None
    if rng.random() < 0.35:
        # the supplied converter's own names are its own business - sometimes they look like the names discover hands
        # out (a converter that is itself the result of an earlier discovery round)
        k, j, ksyn = "k", "j", ()
        if rng.random() < 0.4:
            k, j = meta + str(rng.randint(1, 3)), meta + str(rng.randint(4, 5))
            ksyn = (meta + "3",) if k != meta + "3" and rng.random() < 0.5 else ()
        elif rng.random() < 0.4:
            # ... or names that are legitimate and unusual: the empty prefix (the default namespace of a Turtle / JSON-LD
            # document), "0", a blank - as canonical prefix or as synonym (seed C19-O: "" is falsy)
            k = rng.choice(["", "", "0", " ", "k"])
            ksyn = (rng.choice(["", "0"]),) if k == "k" else ()
            j = rng.choice(["j", "0j"])
        # (records may carry a pattern: recognised is recognised whatever the identifier looks like - seed C19-R)
        recs = [spec.Rec(k, "http://x/a_", ksyn, ("http://x/b#",) if rng.random() < 0.5 else (), rng.choice([None, None, "^\\d{7}$", "^[a-z]+$"]))]
        if rng.random() < 0.4:
            recs.append(spec.Rec(j, "http://y#", (), (), rng.choice([None, "^\\d{7}$"])))
        conv, _how = gen.build(api, recs, rng.choice([":", ":", "/", "::"]), rng)
    kw = {"cutoff": cutoff, "metaprefix": meta}
    if delims is not None:
        kw["delimiters"] = delims if rng.random() < 0.7 else tuple(delims)
    if conv is not None:
        kw["converter"] = conv
    arg = rng.choice([uris, tuple(uris), (u for u in uris), set(uris)]) if uris else uris
    o = call(curies.discover, arg, **kw)
    if conv is not None and o[0] == "ret" and rng.random() < 0.5:
        # the supplied converter learns (by a merge: its number of records and its canonical URI prefixes stay) a
        # URI-prefix synonym that recognises some of the URIs; the same URIs are discovered again
        learn = next((u_[: u_.rfind("/") + 1] for u_ in uris if u_.count("/") >= 3 and not is_github_issue(u_)), None)
        if learn and learn not in {x for r in spec.snapshot(conv) for x in spec.all_u(r)}:
            first = spec.snapshot(conv)[0]
            call(conv.add_prefix, first.prefix, first.uri_prefix, None, [learn], merge=True)
            call(curies.discover, list(uris), **kw)
            S.counters["wl:discovered-again-after-the-converter-learnt-a-synonym"] += 1
    dl = delims or ["#", "/", "_"]
    ft = set()
    if len(set(uris)) < len(uris):
        ft.add("dups")
    if any(sum(d in u for d in dl) >= 2 for u in uris):
        ft.add("multi-delim")
    if any(any(d in u and not u[u.rfind(d) + len(d):].isalnum() for d in dl) for u in uris):
        ft.add("bad-tail")
    if any(not u.isascii() for u in uris):
        ft.add("unicode")
    if o[0] == "ret":
        ups = [r.uri_prefix for r in spec.snapshot(o[1])]
        if any(a != b and b.startswith(a) for a in ups for b in ups):
            ft.add("nested")
        res = o[1]
        for u in set(uris):
            call(res.compress, u)
        if rng.random() < 0.3:
            # hand-curating the result, as the documentation suggests; every later discover call (this shard runs
            # thousands in one process) is still a function of its own arguments only
            call(res.add_prefix, f"zzcur{g % 7}", f"http://zz.cur/{g % 7}/")
            S.counters["wl:results-curated-by-the-caller"] += 1
    if any(is_github_issue(u) for u in uris):
        ft.add("github")
    probe.note_key(f"{'default' if delims is None else len(delims)}{'m' if delims and any(len(d) > 1 for d in delims) else ''}:c{cutoff}:k{int(conv is not None)}:{'+'.join(sorted(ft))}",
                   len(ft) >= 2 or conv is not None or cutoff is not None)
    S.counters["wl:calls"] += 1
    S.counters[f"wl:outcome:{o[0]}"] += 1
    if g % 397 == 0:
        probe.sample({"uris": uris, "delimiters": delims, "cutoff": cutoff, "metaprefix": meta, "converter_given": conv is not None,
                      "result": dict(o[1].bimap) if o[0] == "ret" else str(o[1])})

"""C20 W3C validators accept exactly the documented grammar."""

from __future__ import annotations

from .. import gen, probe
from ..mon_misc import spec_is_ncname, spec_is_w3c_curie
from .common import call

PROP = "C20"
LEVEL = "exploration"
ALPH = ["a", "Z", "0", "_", ".", "-", ":", "/", "#", " ", "\t", "\n", "[", "]", "é"]
# one representative per class: letter (two cases), digit, '_', '.', '-', ':', '/', '#', space, tab, newline, '[', ']', non-ASCII letter
LMAX = {"quick": 4, "thorough": 7}
CHUNK = {"quick": 1500, "thorough": 400000}
RANDOM_CASES = {"quick": 80, "thorough": 4000}


def space(L):
    return sum(len(ALPH) ** k for k in range(L + 1))


def _chunks(tier):
    return -(-space(LMAX[tier]) // CHUNK[tier])


CASES = {t: _chunks(t) + RANDOM_CASES[t] for t in LMAX}
SHARDS = {"quick": 8, "thorough": 16}
TIMEOUT = {"quick": 900, "thorough": 9000}
ANCHORS = ["w3c.py:is_w3c_prefix", "w3c.py:is_w3c_curie", "w3c.py:_is_w3c_luid"]
DECIDING = ["w3c:is_w3c_prefix", "w3c:is_w3c_curie"]
REPO_TESTS = True
RULE = (
    "every string over one representative per character class (letters 'a','Z', digit, '_', '.', '-', ':', '/', '#', "
    "space, tab, newline, '[', ']', non-ASCII letter 'é') up to length 4 (quick) / 7 (thorough), the empty string "
    "included, is given to both validators - exhaustive for that bound (coverage.exhaustive is set only if the number of "
    "enumerated strings equals the size of the space) - plus every string up to length 3 over a second alphabet of "
    "characters that regular-expression flags treat specially (case-folding partners of ASCII letters: dotless i, long s, "
    "Kelvin sign, dotted capital I; non-ASCII digits and letters; non-ASCII whitespace) - plus random strings up to length 40 over the same classes, "
    "other Unicode whitespace (NBSP, EM SPACE, LINE SEPARATOR, \\x1c, \\x85, \\r, \\x0b, \\x0c) and other non-ASCII letters and "
    "digits; each answer is compared with a hand-written character-level recogniser (no regular expressions). key = "
    "(function, length, expected answer, first character class, last character class, contains ':' / whitespace / "
    "bracket / '//'); non-trivial = the string is non-empty and is not accepted by both the NCName and the CURIE "
    "grammar trivially, i.e. it contains a ':' or a character outside [A-Za-z0-9_.-], or starts with a non-letter."
)
ASSUMPTIONS = [
    "whitespace = Python str.isspace() per character (what \\s means in the library's patterns)",
    "recogniser rtmon.mon_misc.spec_is_ncname / spec_is_w3c_curie restates the property text",
]
LEVEL_TEXT = (
    "Exhaustive runtime comparison of both validators with an independent recogniser on every string over 15 class "
    "representatives up to the stated length (complete for that bounded space), plus random longer strings; beyond "
    "the bound it is sampling."
)

ALPH2 = ["a", "_", ":", "1", "\u0131", "\u017f", "\u212a", "\u0130", "\u0663", "\uff12", "\uff21", " ", "\u00a0", "\x1c", "\x85"]
WS = [" ", " ", " ", "\x1c", "\x85", "\r", "\x0b", "\x0c", "　"]
OTHER = ["ß", "日", "٣", "İ", "́", "😀", "A", "b", "9", "%", "?", "=", "+", "\\", "'", "\"", "<", ">", "{", "|", "\x00"]


def nth(i):
    """The i-th string of the length-lexicographic enumeration over ALPH."""
    n, k = len(ALPH), 0
    while i >= n ** k:
        i -= n ** k
        k += 1
    out = []
    for _ in range(k):
        out.append(ALPH[i % n])
        i //= n
    return "".join(reversed(out))


def cls(ch):
    if ch.isspace():
        return "w"
    if ch in "[]":
        return "b"
    if ch.isascii() and ch.isalpha():
        return "l"
    if ch.isascii() and ch.isdigit():
        return "d"
    if ch in "_.-:/#":
        return ch
    return "x"


def key_of(fn, s, want):
    if not s:
        return f"{fn}:empty", True
    feats = ("c" if ":" in s else "") + ("w" if any(c.isspace() for c in s) else "") + ("b" if "[" in s or "]" in s else "") + ("s" if "//" in s else "")
    plain = all(c.isascii() and (c.isalnum() or c in "_.-") for c in s) and (s[0].isalpha())
    return f"{fn}:{min(len(s), 7)}:{int(want)}:{cls(s[0])}{cls(s[-1])}:{feats}", not plain


def check(ctx, s):
    import curies.w3c as w3c

    call(w3c.is_w3c_prefix, s)
    call(w3c.is_w3c_curie, s)
    ctx.n_checked = getattr(ctx, "n_checked", 0) + 1
    if ctx.n_checked % 9 == 0:
        # the same characters carried by str subclasses (a plain one; one whose str() is not its text, like a member of
        # a str-valued Enum): the validators are asked about the characters of the string
        for cls in (gen.Str, gen.Weird):
            call(w3c.is_w3c_prefix, cls(s))
            call(w3c.is_w3c_curie, cls(s))
        probe.S.counters["wl:str-subclass-inputs"] += 2
    for fn, want in (("p", spec_is_ncname(s)), ("c", spec_is_w3c_curie(s))):
        k, nt = key_of(fn, s, want)
        probe.note_key(k, nt)


def run_case(ctx, g, rng):
    S = probe.S
    tier = ctx.tier
    nchunks = _chunks(tier)
    if g < nchunks:
        lo, hi = g * CHUNK[tier], min((g + 1) * CHUNK[tier], space(LMAX[tier]))
        for i in range(lo, hi):
            check(ctx, nth(i))
        S.counters["wl:enumerated"] += hi - lo
        if g % 50 == 0:
            s = nth(lo)
            import curies.w3c as w3c

            probe.sample({"enumerated_range": [lo, hi], "first": s, "last": nth(hi - 1), "is_w3c_prefix(first)": w3c.is_w3c_prefix(s), "is_w3c_curie(first)": w3c.is_w3c_curie(s)})
        return
    if g == nchunks:
        # a second, small exhaustive pass over characters that regular-expression flags are known to treat specially:
        # case-folding partners of ASCII letters, non-ASCII digits, non-ASCII whitespace
        import itertools

        for k in range(0, 4):
            for tup in itertools.product(ALPH2, repeat=k):
                check(ctx, "".join(tup))
                S.counters["wl:enumerated-secondary"] += 1
        return
    pool = ALPH + WS + OTHER + ALPH2
    for _ in range(200):
        style = rng.random()
        if style < 0.4:
            s = "".join(rng.choice(pool) for _ in range(rng.randint(0, 40)))
        elif style < 0.8:  # near-valid strings with one hostile edit
            p = rng.choice(["GO", "_", "a.b-c", "x1", ""])
            r = rng.choice(["1234", "a/b", "/a", "a:b", "", "#x", "a#b?c=d", "//a", "/", "x//y"])
            s = (p + ":" + r) if rng.random() < 0.8 else rng.choice([p, r])
            if rng.random() < 0.7:
                i = rng.randint(0, len(s))
                s = s[:i] + rng.choice(pool) + s[i:]
        else:
            s = rng.choice(["GO", "go_1", "a:b"]) + rng.choice(WS + ["\n", " ", "\t"]) * rng.randint(1, 2)
            if rng.random() < 0.3:
                s = rng.choice(WS) + s
        check(ctx, s)
        S.counters["wl:random"] += 1
    # words: prefixes and references people write (a rule keyed on a particular word is invisible to strings over
    # one representative per character class)
    words = ["xml", "xmlns", "XML", "Xml_1", "XMLSchema", "xsd", "rdf", "rdfs", "owl", "http", "https", "urn", "file", "mailto", "doi",
             "null", "None", "nan", "true", "_", "__", "a.b", "obo", "GO", "chebi", "ncbi.taxon", "x", "xm", "exml", "_xml", "data", "tel"]
    for _ in range(40):
        w = rng.choice(words)
        r = rng.choice(["lang", "1234", "", "/a", "//a", "a b", rng.choice(words), "x:" + rng.choice(words)])
        for s in (w, w + ":" + r, rng.choice(words) + w, w + rng.choice(["1", ".", "-", "_", ":"])):
            check(ctx, s)
            S.counters["wl:word-strings"] += 1
    # long strings (far above any plausible length threshold / recursion limit of a matcher): valid ones, and ones
    # spoilt by a single hostile character at the start, in the middle, at the end
    for _ in range(6):
        n = rng.choice([300, 2000, 20000, 70000, 140000]) if tier == "thorough" else rng.choice([300, 1500, 70000])
        p = "".join(rng.choice("ab_Z9.-") for _ in range(n))
        p = rng.choice("ab_") + p
        r = "".join(rng.choice("ab/#?=9._-:") for _ in range(n))
        for s in (p, p + ":" + r, r, ":" + r):
            check(ctx, s)
            i = rng.choice([0, len(s) // 2, len(s)])
            check(ctx, s[:i] + rng.choice(pool) + s[i:])
            S.counters["wl:long-strings"] += 2


def EXHAUSTIVE(tier, counters):
    n = counters.get("wl:enumerated", 0)
    full = space(LMAX[tier])
    return {
        "exhaustive": n == full and not __import__("os").environ.get("RTMON_CASES"),
        "explanation": f"{n} of {full} strings over {len(ALPH)} class representatives up to length {LMAX[tier]} enumerated (both validators on each); {counters.get('wl:random', 0)} random strings up to length 40 in addition",
    }

"""One driver per property: builds cases and calls the real API; the monitors decide."""

"""C08 strict, passthrough and default modes differ only in how failure is reported."""

from __future__ import annotations

import collections

from .. import gen, probe, spec
from ..mon_core import is_library_value_error
from ..probe import violation
from .common import growth_sweep, long_lived, scale_leg, call

PROP = "C08"
LEVEL = "exploration"
CASES = {"quick": 400, "thorough": 60000}
SHARDS = {"quick": 8, "thorough": 16}
ANCHORS = [
    "api.py:Converter.compress", "api.py:Converter.expand", "api.py:Converter.compress_or_standardize",
    "api.py:Converter.expand_or_standardize", "api.py:Converter.standardize_prefix", "api.py:Converter.standardize_curie",
    "api.py:Converter.standardize_uri", "api.py:Converter.expand_pair", "api.py:Converter.expand_reference",
    "api.py:Converter.expand_all", "api.py:Converter.expand_pair_all", "api.py:Converter.parse",
    "api.py:Converter.parse_uri", "api.py:Converter.parse_curie", "api.py:_split",
]
DECIDING = ["mode-matrix"]
ALSO_COUNT = ["prop:C08"]
RULE = (
    "case = random clash-free record set and delimiter; inputs are malformed first (no delimiter, empty, only a "
    "delimiter, delimiter first/last, doubled delimiter) then unknown and known CURIEs/URIs/prefixes. For each of the 14 "
    "listed functions the driver issues every strict x passthrough (resp. strict x return_none) combination the "
    "signature offers with tracing on (in every second case a second time after the converter has grown by a new record "
    "and a merged synonym, so that strings fail before and succeed after on the same object); an offline checker groups the recorded top-level call events by (function, "
    "input) and checks the relation between modes without any model: default returns (value or None / (None, None)) "
    "and never raises; passthrough returns the same value or the input unchanged (the formatted CURIE for pair / "
    "reference forms); strict returns the same value or raises a ValueError subclass defined in curies; strict wins over "
    "passthrough. Online, the model monitor flags any exception escaping a non-strict call anywhere. key = function x "
    "input class x whether the default call gave a result; non-trivial = the input is malformed or unknown (a failure "
    "path is exercised)."
)
ASSUMPTIONS = ["NoCURIEDelimiterError raised by parse_curie(strict=True) counts as one of the library's ValueError-derived errors"]

SP = ("compress", "expand", "compress_or_standardize", "expand_or_standardize", "standardize_prefix", "standardize_curie", "standardize_uri")
MODES = [(False, False), (False, True), (True, False), (True, True)]


def malformed(d):
    return ["", "nodelim", d, d + d, d + "x", "x" + d, " ", "x" + d + d + "y", "\n", "nope" + d + "1", "NOPE" + d + "NOPE"]


def run_case(ctx, g, rng):
    api, S = ctx.api, probe.S
    scale_leg(ctx, rng, rng.choice([":", ":", "/", "::"]), modes=True, g=g)
    growth_sweep(ctx, rng, rng.choice([":", ":", "/"]), g)
    long_lived(ctx, rng, rng.choice([":", "/"]), g)
    d = rng.choice(gen.DELIMS)
    recs = gen.records(rng, d, 0, 4, allow_delim=rng.random() < 0.15)
    if recs and rng.random() < 0.3:
        # strings that read both ways: some CURIE prefix + delimiter is itself a registered URI prefix ("urn" next to
        # "urn:isbn:", a JSON-LD term defined by a compact IRI) - the modes of one call must still agree and the default
        # call must not raise (seed C08-U: two predicates that call each other exactly for such strings)
        taken_u = {u for r in recs for u in spec.all_u(r)}
        r0 = rng.choice(recs)
        cand = rng.choice(spec.all_p(rng.choice(recs))) + d + rng.choice(["", "isbn" + d, "x"])
        if cand not in taken_u:
            recs[recs.index(r0)] = r0._replace(usyn=r0.usyn + (cand,))
            S.counters["wl:maps-with-strings-that-read-both-ways"] += 1
    c, how = gen.build(api, recs, d, rng)
    hooked = g % 7 == 3 and bool(recs)
    if hooked:
        # a user subclass that customises the documented identifier hook - directly, through a parent class or through
        # a mixin: the relations between the modes of one call bind it like any converter
        c = gen.hooked_subclass(api)([gen.mk_record(api, r) for r in recs], delimiter=d)
        S.counters["wl:hooked-subclass-converters:" + type(c).__name__] += 1
    allp = [p for r in recs for p in spec.all_p(r)]
    allu = [u for r in recs for u in spec.all_u(r)]
    inputs = malformed(d) + gen.URL_HOSTILE + [rng.choice(gen.UNICODE), *(x + d + "1" for x in gen.SPECIAL_PREFIXES), *(x + "1" for x in gen.SPECIAL_URIS), *gen.SPECIAL_PREFIXES]
    inputs += [p + d + rng.choice(gen.IDS) for p in allp[:4]] + [u + rng.choice(gen.IDS) for u in allu[:4]] + allp[:2] + [u[:-1] for u in allu[:2]]
    if hooked:
        inputs += [p + d + sp_ + d + "7" for p in allp[:3] for sp_ in [recs[0].prefix]] + [p + d + "no!" for p in allp[:3]]
    inputs = list(dict.fromkeys(inputs))
    phases = [(inputs, None)]
    if g % 2 == 0:
        # second phase on the same object: the converter grows (a new record, a synonym merged into an existing one)
        # after it has been queried, then the matrix is issued again - also for strings that fail before and
        # succeed after
        newp, news = "zq" + str(g % 7), "zs" + str(g % 5)
        newu = "http://zq.org/" + str(g % 3) + "/"
        grown_inputs = [newp + d + "1", news + d + "1", newu + "1", newp, news, "nodelim", ""] + inputs[-6:]
        inputs = list(dict.fromkeys([newp + d + "1", news + d + "1", newu + "1", newp] + inputs))
        phases = [(inputs, None), (list(dict.fromkeys(grown_inputs)), (newp, newu, news))]
    pairs = []
    for inputs, growth in phases:
        if growth is not None:
            newp, newu, news = growth
            call(c.add_prefix, newp, newu)
            if recs:
                call(c.add_prefix, recs[0].prefix, recs[0].uri_prefix, [news], merge=True)
            allp = [p for r in spec.snapshot(c) for p in spec.all_p(r)]
        run_matrix(api, c, inputs, allp, d, order=rng.choice(["input-major", "mode-major", "shuffled"]), rng=rng)
        check_mode_matrix(S.events, c, [spec.rec_dict(r) for r in spec.snapshot(c)], d, set(malformed(d)))
        S.events = []
        S.counters["wl:inputs"] += len(inputs)
        S.counters["wl:phases"] += 1
    if g % 101 == 0:
        probe.sample({"records": [spec.rec_dict(r) for r in recs], "delimiter": d, "input": "nodelim",
                      "expand": {f"strict={st},passthrough={pt}": call(c.expand, "nodelim", strict=st, passthrough=pt) for st, pt in MODES}})


def run_matrix(api, c, inputs, allp, d, order="input-major", rng=None):
    """Issue the whole (function x input x mode) matrix.  The relations are read from the trace afterwards, so the ORDER
    of the calls is free: input-major (all modes of one string back to back), mode-major (the whole batch once per
    mode - how a bulk caller works) or shuffled.  An answer that depends on which string was asked just before only
    shows in the latter two (seed C08-O: a remembered last match)."""
    S = probe.S
    S.tracing = True
    S.events = []
    plan = []
    for x in inputs:
        for name in SP:
            for st, pt in MODES:
                plan.append((name, (x,), {"strict": st, "passthrough": pt}))
        for st in (False, True):
            plan.append(("expand_all", (x,), {"strict": st}))
            plan.append(("parse", (x,), {"strict": st}))
            plan.append(("parse_curie", (x,), {"strict": st}))
            for rn in (False, True):
                plan.append(("parse_uri", (x,), {"strict": st, "return_none": rn}))
    pairs = [(p, i) for p in (allp[:3] + allp[-2:] + ["nope", "", "nodelim"]) for i in ("1", "", d)]
    for p, i in pairs:
        for st, pt in MODES:
            plan.append(("expand_pair", (p, i), {"strict": st, "passthrough": pt}))
            plan.append(("expand_reference", (api.ReferenceTuple(p, i),), {"strict": st, "passthrough": pt}))
        for st in (False, True):
            plan.append(("expand_pair_all", (p, i), {"strict": st}))
    if order == "mode-major":
        plan.sort(key=lambda t: (t[0], sorted(t[2].items())))  # stable: inputs keep their order within one mode
    elif order == "shuffled":
        rng.shuffle(plan)
    S.counters[f"wl:matrix-order:{order}"] += 1
    try:
        for name, a, kw in plan:
            call(getattr(c, name), *a, **kw)
    finally:
        S.tracing = False


def check_mode_matrix(events, conv, recs, d, malformed_set):
    """Offline relation between the modes of one (function, input), read from the recorded trace."""
    groups = collections.defaultdict(dict)
    for ev in events:
        if ev["depth"] != 0 or ev["args"][0] is not conv or "outcome" not in ev:
            continue
        kw = ev["kwargs"]
        mode = (bool(kw.get("strict", False)), bool(kw.get("passthrough", False)), bool(kw.get("return_none", False)))
        groups[(ev["fn"], tuple(ev["args"][1:]))][mode] = ev["outcome"]
    for (fn, args), modes in groups.items():
        probe.evaluated("mode-matrix")
        w = {"function": fn, "input": list(args), "records": recs, "delimiter": d}
        x = args[0]
        if fn in ("expand_pair",):
            pt_value = args[0] + d + args[1]
        elif fn == "expand_reference":
            pt_value = args[0][0] + d + args[0][1]
        else:
            pt_value = x
        for rn in (False, True):
            default = modes.get((False, False, rn))
            if default is None:
                continue
            none_values = (None, (None, None)) if fn == "parse_uri" and not rn else (None,)
            if default[0] == "raise":
                mech = "default-mode-raises"
                if type(default[1]).__name__ == "NoCURIEDelimiterError":
                    mech = "no-delimiter-raises-in-non-strict-mode"
                violation(["C08"], "mode-matrix", mech, observed=default, **w)
                failed = True
                val = None
            else:
                val = default[1]
                failed = val in none_values
            ptm = modes.get((False, True, rn))
            if ptm is not None and fn not in ("expand_all", "expand_pair_all", "parse", "parse_uri", "parse_curie"):
                if ptm[0] == "raise":
                    mech = "passthrough-mode-raises"
                    if type(ptm[1]).__name__ == "NoCURIEDelimiterError":
                        mech = "no-delimiter-raises-in-non-strict-mode"
                    violation(["C08"], "mode-matrix", mech, observed=ptm, **w)
                elif default[0] == "ret" and ptm[1] != (pt_value if failed else val):
                    violation(["C08"], "mode-matrix", "passthrough-value-wrong", default=default, passthrough=ptm, **w)
            for key in ((True, False, rn), (True, True, rn)):
                sm = modes.get(key)
                if sm is None or default[0] == "raise":
                    continue
                if failed:
                    if not (sm[0] == "raise" and is_library_value_error(sm[1])):
                        violation(["C08"], "mode-matrix", "strict-does-not-raise-library-error", default=default, strict=sm, mode=list(key), **w)
                elif sm != ("ret", val):
                    violation(["C08"], "mode-matrix", "strict-changes-successful-value", default=default, strict=sm, mode=list(key), **w)
            cls = "malformed" if (isinstance(x, str) and x in malformed_set) else "fails" if failed else "ok"
            probe.note_key(f"{fn}:{cls}:rn{int(rn)}:{'colon' if d == ':' else 'other'}", cls != "ok")

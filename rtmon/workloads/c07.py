"""C07 Derived operations agree with the two primitive parsers."""

from __future__ import annotations

from .. import smallworld, gen, probe, spec
from ..probe import violation
from .common import growth_sweep, long_lived, change_delimiter_mid_life, scale_leg, call, grow_while_asking, use_as_input_of_derivations

PROP = "C07"
LEVEL = "exploration"
CASES = {"quick": 560, "thorough": 28000}
SHARDS = {"quick": 8, "thorough": 16}
ANCHORS = [
    "api.py:Converter.parse", "api.py:Converter.compress_or_standardize", "api.py:Converter.expand_or_standardize",
    "api.py:Converter.is_uri", "api.py:Converter.is_curie", "api.py:Converter.format_curie",
    "api.py:Converter.compress_strict", "api.py:Converter.expand_strict",
]
DECIDING = [
    "query-model:parse", "query-model:is_uri", "query-model:is_curie", "query-model:compress_or_standardize",
    "query-model:expand_or_standardize", "query-model:compress_strict", "query-model:expand_strict",
    "query-model:format_curie", "derived-equivalences",
]
RULE = (
    "case = random clash-free record set biased towards ambiguity: a URI prefix that looks like a CURIE ('GO:' next to "
    "CURIE prefix 'GO'), a CURIE prefix that starts a URI prefix ('http' with 'http://x/'), the empty URI prefix, any "
    "delimiter; strings: boundary strings, strings that are both a CURIE and a URI of the converter, delimiter-free and "
    "empty strings. Each derived method is compared with the model's composition of the two primitive parsers (URI "
    "first), and the real answers are related to each other: is_uri <=> compress not None <=> parse_uri finds a "
    "reference; is_curie <=> expand not None; parse = URI parse, else CURIE parse; *_or_standardize = CURIE / canonical "
    "URI of parse; *_strict = strict=True calls. key = (is URI, is CURIE, has delimiter) x delimiter class x map shape; "
    "non-trivial = the string is recognised both as URI and CURIE, or has no delimiter, or is empty."
)
ASSUMPTIONS = ["reference model rtmon.spec.SpecConverter"]

AMBIG = [
    [("GO", "GO:", (), ()), ("obo", "http://x/", (), ())],
    [("http", "http://x/", (), ()), ("x", "http:", ("//y",), ())],
    [("a", "a:", (), ("a:a:",)), ("b", "", (), ())],
    [("GO", "http://x/GO_", ("go",), ("GO:", "go:")), ("", "http://x/", (), ())],
    [("u", "u:u:", (), ()), ("u:", "u", (), ())],
]


def relate(c, q, d, w):
    """Every derived operation on one string, and the relations between the converter's own answers."""
    S = probe.S
    iu, ic = call(c.is_uri, q), call(c.is_curie, q)
    co, pu = call(c.compress, q), call(c.parse_uri, q, return_none=True)
    ex, pc = call(c.expand, q), call(c.parse_curie, q)
    pa = call(c.parse, q, strict=False)
    cs, es = call(c.compress_or_standardize, q), call(c.expand_or_standardize, q)
    cst, est = call(c.compress_strict, q), call(c.expand_strict, q)
    cT, eT = call(c.compress, q, strict=True), call(c.expand, q, strict=True)
    probe.evaluated("derived-equivalences")

    def bad(mech, **kw):
        violation(["C07"], "derived-equivalences", mech, string=q, **kw, **w)

    if not (iu[0] == "ret" and iu[1] == (co[0] == "ret" and co[1] is not None) == (pu[0] == "ret" and pu[1] is not None)):
        bad("is_uri-compress-parse_uri-disagree", is_uri=iu, compress=co, parse_uri=pu)
    ex_ok = ex[0] == "ret" and ex[1] is not None
    if ic != ("ret", ex_ok):
        bad("is_curie-expand-disagree", is_curie=ic, expand=ex)
    if ic == ("ret", True) and d not in q:
        bad("is_curie-without-delimiter", is_curie=ic)
    if w.get("built") == "hooked-subclass":
        S.counters["wl:strings-asked-of-hooked-subclass"] += 1
    want_parse = pu if (pu[0] == "ret" and pu[1] is not None) else pc if (pc[0] == "ret" and pc[1] is not None) else ("ret", None)
    if pa != want_parse:
        bad("parse-is-not-uri-first-then-curie", parse=pa, parse_uri=pu, parse_curie=pc)
    if pa[0] == "ret":
        t = pa[1]
        want_cs = None if t is None else call(c.format_curie, t.prefix, t.identifier)[1]
        want_es = None if t is None else call(c.expand_pair, t.prefix, t.identifier)[1]
        if cs != ("ret", want_cs):
            bad("compress_or_standardize-is-not-curie-of-parse", got=cs, parse=pa)
        if es != ("ret", want_es):
            bad("expand_or_standardize-is-not-uri-of-parse", got=es, parse=pa)
    if probe.okey(cst) != probe.okey(cT) or probe.okey(est) != probe.okey(eT):
        bad("strict-aliases-differ", compress_strict=cst, compress_T=cT, expand_strict=est, expand_T=eT)


def run_case(ctx, g, rng):
    api, S = ctx.api, probe.S
    if smallworld.active(ctx, g):
        for c_, recs_, d_ in smallworld.chunk(ctx, g):
            w_ = {"records": [spec.rec_dict(r) for r in recs_], "delimiter": d_, "built": "curie-small-world"}
            for q in smallworld.queries(ctx.tier, d_):
                relate(c_, q, d_, w_)
        probe.note_key(f"curie-small-world:chunk{g % 40}", True)
    scale_leg(ctx, rng, rng.choice([":", ":", "/", "::"]), modes=False, g=g)
    growth_sweep(ctx, rng, rng.choice([":", ":", "/"]), g)
    long_lived(ctx, rng, rng.choice([":", "/"]), g)
    if g % 3 == 0:
        d = ":"
        recs = [spec.Rec(p, u, tuple(ps), tuple(us), None) for p, u, ps, us in rng.choice(AMBIG)]
        how = "ambiguous-fixture"
        c = api.Converter([gen.mk_record(api, r) for r in recs])
    else:
        d = rng.choice(gen.DELIMS)
        recs = gen.records(rng, d, 0, 5, allow_delim=rng.random() < 0.3)
        # make some CURIE prefix + delimiter a registered URI prefix, or a URI prefix a CURIE prefix
        if recs and rng.random() < 0.6:
            taken_u = {u for r in recs for u in spec.all_u(r)}
            taken_p = {p for r in recs for p in spec.all_p(r)}
            r0 = rng.choice(recs)
            cand = rng.choice(spec.all_p(rng.choice(recs))) + d
            if cand not in taken_u:
                recs[recs.index(r0)] = r0._replace(usyn=r0.usyn + (cand,))
            elif r0.uri_prefix not in taken_p and d not in r0.uri_prefix:
                recs[recs.index(r0)] = r0._replace(psyn=r0.psyn + (r0.uri_prefix,))
        if g % 3 == 1:
            strings = [p + d + "1" for r in recs for p in spec.all_p(r)][:6] + [u + "1" for r in recs for u in spec.all_u(r)][:6]

            def ask(cc, s):
                call(cc.parse, s, strict=False)
                call(cc.is_uri, s)
                call(cc.is_curie, s)
                call(cc.compress_or_standardize, s)
                call(cc.expand_or_standardize, s)
                call(cc.parse_uri, s)
                call(cc.parse_curie, s)
                call(cc.compress, s)
                call(cc.expand, s)

            c, how = grow_while_asking(api, recs, d, rng, ask, strings), "asked-while-growing"
        else:
            c, how = gen.build(api, recs, d, rng)
    hooked = g % 7 == 5
    if hooked:
        # a user subclass overriding only the documented hook standardize_identifier: outside the reference model's
        # domain, but the relations between the converter's own answers (derived-equivalences below) bind it all the same
        c, how = gen.hooked_subclass(api)([gen.mk_record(api, r) for r in recs], delimiter=d), "hooked-subclass"
        S.counters["wl:hooked-subclass-converters"] += 1
    sp = spec.SpecConverter(recs, d)
    w = {"records": [spec.rec_dict(r) for r in recs], "delimiter": d, "built": how}
    allp = [p for r in recs for p in spec.all_p(r)]
    allu = [u for r in recs for u in spec.all_u(r)]
    extra = [p + d + u + "1" for p in allp[:3] for u in allu[:3]] + [u + p + d + "1" for p in allp[:2] for u in allu[:2]]
    if hooked:
        extra += [p + d + sp.prefix_owner(p).prefix + d + "1" for p in allp[:4]] + [p + d + "no!" for p in allp[:3]]
    for q in gen.query_strings(recs, d, rng, extra):
        relate(c, q, d, w)
        is_u = sp.parse_uri(q) is not None
        is_c = sp.parse_curie(q) is not None
        nontrivial = (is_u and is_c) or d not in q or q == ""
        probe.note_key(f"u{int(is_u)}c{int(is_c)}d{int(d in q)}e{int(q == '')}:{'colon' if d == ':' else 'other'}:{how == 'ambiguous-fixture'}:{gen.overlap_shape(recs)[-4:]}", nontrivial)
        S.counters["wl:strings"] += 1
        if is_u and is_c:
            S.counters["wl:strings-both-uri-and-curie"] += 1
    if g % 5 == 2 and not hooked:
        change_delimiter_mid_life(c, [p + d + "1" for p in allp[:3]] + [u + "1" for u in allu[:3]], rng,
                                  lambda cc, q: relate(cc, q, cc.delimiter, {**w, "delimiter": cc.delimiter, "note": "delimiter changed mid-life"}))
    for p in allp[:3]:
        call(c.format_curie, p, rng.choice(gen.IDS))
    if g % 4 == 3:
        for x in use_as_input_of_derivations(api, c, rng):
            for q in (x, x + d + "1"):
                call(c.parse, q, strict=False)
                call(c.is_uri, q)
                call(c.is_curie, q)
                call(c.compress_or_standardize, q)
                call(c.expand_or_standardize, q)
    if g % 141 == 0:
        q = (allp[0] + d + allu[0] + "1") if allp and allu else "x"
        probe.sample({**w, "string": q, "parse": call(c.parse, q, strict=False), "compress_or_standardize": call(c.compress_or_standardize, q),
                      "expand_or_standardize": call(c.expand_or_standardize, q)})


def EXHAUSTIVE(tier, counters):
    return smallworld.exhaustive(tier, counters)

"""C17 The resolver redirects exactly where expand points, on both web frameworks."""

from __future__ import annotations

from .. import gen, probe, spec
from ..probe import evaluated, violation
from .common import call

PROP = "C17"
LEVEL = "exploration"
CASES = {"quick": 160, "thorough": 18000}
SHARDS = {"quick": 8, "thorough": 16}
TIMEOUT = {"quick": 900, "thorough": 6000}
ANCHORS = [
    "resolver_service.py:get_flask_blueprint", "resolver_service.py:get_flask_app", "resolver_service.py:get_fastapi_router",
    "resolver_service.py:get_fastapi_app", "resolver_service.py:get_flask_blueprint.<locals>.resolve",
    "resolver_service.py:get_fastapi_router.<locals>.resolve",
]
# public functions the driver does not call itself (the library reaches them internally today): missing => reported, not inconclusive
SOFT_ANCHORS = ['resolver_service.py:get_flask_blueprint', 'resolver_service.py:get_fastapi_router']
DECIDING = ["resolver:flask", "resolver:fastapi", "resolver:frameworks-agree"]
REPO_TESTS = False
RULE = (
    "case = a strict converter with URL-safe CURIE prefixes (unreserved characters, case variants, synonyms) and absolute "
    "http(s) URI prefixes, delimiter ':' or '/', served by get_flask_app and get_fastapi_app; 30 requests "
    "GET /<prefix><delimiter><identifier> through the in-process Flask test client and Starlette TestClient (no sockets) "
    "with canonical, synonym and unknown prefixes and identifiers of 1-4 non-empty unreserved segments (never '.' / '..') "
    "joined by '/', optionally containing the delimiter; in every second case the converter grows while the apps are "
    "serving (a new record, a synonym merged into an existing one) and earlier paths are requested again. History recorded at the client boundary (path, status, "
    "Location) together with the expand_pair call the route handler issued (from the probe trace, showing how the "
    "framework split the path). Oracle: model expansion of the CURIE split at the first delimiter: known => 302 with "
    "that Location, unknown => 422; both frameworks must give the same status and Location. key = delimiter x prefix "
    "class x identifier features (contains '/', contains the delimiter, number of segments) x framework outcome; "
    "non-trivial = the identifier contains '/' or the delimiter."
)
ASSUMPTIONS = [
    "in-process test clients stand in for HTTP (Werkzeug test client, Starlette TestClient over httpx)",
    "generated paths contain only unreserved characters, ':' and '/', so neither client percent-encodes or normalises them",
]

SEG_CHARS = "abzAZ019-._~"
PREFIXES = ["doi", "GO", "go", "a.b", "a-b", "x_1", "P", "p", "~t", "chebi"]
UBASE = ["http://x.org/", "https://id.org/a_", "http://x.org/a/", "http://purl.org/obo/GO_", "https://doi.org/", "http://y.org/q?id=", "http://z.org/#", "http://w.org/late/", "https://id.org/b_"]


def segment(rng, d):
    while True:
        s = "".join(rng.choice(SEG_CHARS) for _ in range(rng.randint(1, 4)))
        if s.strip(".") != "":
            return s


def setup(ctx):
    import logging

    logging.disable(logging.CRITICAL)


def run_case(ctx, g, rng):
    from curies.resolver_service import get_fastapi_app, get_flask_app
    from starlette.testclient import TestClient

    api, S = ctx.api, probe.S
    d = rng.choice([":", ":", "/", "/", "::", "_", "."])
    if g == 0:
        d = "/"  # case 0 always carries the trigger of the listed known finding (FastAPI's /docs/oauth2-redirect)
    # (with the delimiter ':' a registered prefix or synonym may itself contain a colon - "ncbi:gene": a request for it
    #  is split at the FIRST delimiter like everywhere else in the library, so it is answered for the prefix "ncbi";
    #  seed C17-O: a handler that first tries the router's own, greedy split)
    with_delim = d == ":" and rng.random() < 0.15
    pool_ = PREFIXES + (["ncbi:gene", "obo:go"] if (d != ":" and d != "::") or with_delim else [])
    names = [p for p in rng.sample(pool_, k=len(pool_)) if d not in p or with_delim]
    if with_delim:
        names.sort(key=lambda x: ":" in x)  # popped first
        if rng.random() < 0.5:
            names.insert(len(names) - 2, "ncbi")  # ... and sometimes its head is a prefix of its own
            names = [x for i, x in enumerate(names) if x != "ncbi" or i == names.index("ncbi")]
        S.counters["wl:prefix-containing-the-delimiter"] += 1
    ups = rng.sample(UBASE, k=len(UBASE))
    # with the delimiter '/' a prefix is a whole path segment: also one that the web frameworks use for routes of their own
    # ("static" in Flask, "docs" / "redoc" / "openapi.json" in FastAPI).  Only for the one-call helpers - an app of the
    # user's own has the routes its owner gave it.  (Finding 13, repaired, and the listed known finding of C17.)
    framework_names = d == "/" and (rng.random() < 0.12 or g == 0)
    if framework_names:
        names += ["static", "docs"] if g == 0 else rng.sample(["static", "docs", "redoc", "openapi.json"], k=2)  # popped first
        S.counters["wl:prefixes-named-like-framework-routes"] += 1
    recs = []
    # (one app in twelve is built from a converter without any record - "pass an empty list if you plan to build the
    #  converter incrementally": every prefix is unknown to it until it grows)
    for _ in range(rng.randint(1, 3) if rng.random() < 0.92 else 0):
        p, u = names.pop(), ups.pop()
        ps = tuple(names.pop() for _ in range(rng.randint(0, 1)))
        us = tuple(ups.pop() for _ in range(rng.randint(0, 1)))
        recs.append(spec.Rec(p, u, ps, us, None))
    if g % 23 == 11:
        # a resolver for a registry-sized converter (hundreds of records, as the Bioregistry has): known prefixes are
        # redirected and unknown ones answered 422 whatever the number of prefixes there is to list (seed C17-W)
        n_bulk = rng.choice([101, 130, 300])
        recs += [spec.Rec(f"zzbulk{i}", f"http://zz.bulk/{i}/", (), (), None) for i in range(n_bulk)]
        S.counters[f"wl:registry-sized-converter:n{n_bulk}"] += 1
    # the converter may have a past: registered record by record, or grown through merges of records that have
    # canonical values of their own
    conv, how = gen.build(api, recs, d, rng)
    S.counters[f"wl:build:{how}"] += 1
    sp = spec.SpecConverter(recs, d)
    # "a resolver app built from any converter": through the one-call helpers or - as their documentation describes -
    # by mounting the blueprint / router on an app of the user's own
    entry = "app" if framework_names else rng.choice(["app", "app", "mounted"])
    S.counters[f"wl:entry-point:{entry}"] += 1
    evaluated("resolver:app-can-be-built")
    try:
        if entry == "app":
            fl = get_flask_app(conv).test_client()
            fa = TestClient(get_fastapi_app(conv))
        else:
            import fastapi
            import flask
            from curies.resolver_service import get_fastapi_router, get_flask_blueprint

            fapp_ = flask.Flask("users_own_app")
            fapp_.register_blueprint(get_flask_blueprint(conv))
            aapp_ = fastapi.FastAPI()
            aapp_.include_router(get_fastapi_router(conv))
            if rng.random() < 0.6:
                # a second resolver, for another converter, mounted on the same apps under /alt: the first one still
                # answers for its own converter
                shadow = recs[0].prefix if recs else "GO"
                d2 = rng.choice([x for x in (":", "/", "_", "::") if x not in shadow and (x != d or rng.random() < 0.3)] or [d])
                other = api.Converter.from_prefix_map({"zzalt": "http://zz.alt/", shadow: "http://zz.alt/shadow_"}, delimiter=d2)
                fapp_.register_blueprint(get_flask_blueprint(other), url_prefix="/alt", name="alt")
                aapp_.include_router(get_fastapi_router(other), prefix="/alt")
                S.counters["wl:second-resolver-mounted-on-the-same-app"] += 1
            fl = fapp_.test_client()
            fa = TestClient(aapp_, raise_server_exceptions=False)
    except Exception as e:  # noqa: BLE001
        # "a resolver app built from any converter": one that cannot be built answers nothing at all
        violation(["C17"], "resolver:app-can-be-built", "resolver-app-cannot-be-built-for-this-converter", entry_point=entry, observed=e,
                  records=[spec.rec_dict(r) for r in recs], delimiter=d, built_by=how)
        return
    known = [p for r in recs for p in spec.all_p(r)]
    w0 = {"records": [spec.rec_dict(r) for r in recs], "delimiter": d}
    late_prefix, late_syn = names.pop(), names.pop()
    asked = []
    for step in range(30):
        if step == 18 and g % 2 == 0:
            # the converter the apps were built from grows while they are serving: a new record, and a synonym
            # merged into an existing one; the same paths are then requested again
            call(conv.add_prefix, late_prefix, ups.pop())
            if not recs:
                pass  # nothing to merge into yet: the new record is the first one
            elif rng.random() < 0.5:
                call(conv.add_prefix, recs[0].prefix, recs[0].uri_prefix, [late_syn], merge=True)
            else:  # the merged-in record has a canonical prefix and URI prefix of its own and matches through a synonym
                call(conv.add_record, api.Record(prefix=late_syn, uri_prefix=ups.pop(), prefix_synonyms=[rng.choice(spec.all_p(recs[0]))]), merge=True)
            recs = list(spec.snapshot(conv))
            sp = spec.SpecConverter(recs, d)
            known = [p for r in recs for p in spec.all_p(r)]
            w0 = {"records": [spec.rec_dict(r) for r in recs], "delimiter": d, "registered_while_serving": [late_prefix, late_syn]}
            S.counters["wl:converters-grown-while-serving"] += 1
        if step >= 18 and g % 2 == 0 and asked and rng.random() < 0.6:
            p, segs, ident = rng.choice(asked)
        else:
            p = rng.choice(known + ["nope", "NOPE", (known[0] if known else "GO").swapcase(), late_prefix, late_syn])
            segs = None
        if segs is not None:
            pass
        else:
            segs = [segment(rng, d) for _ in range(rng.choice([1, 1, 2, 3, 4]))]
            ident = "/".join(segs)
            if d != "/" and rng.random() < 0.4:
                i = rng.randint(0, len(ident))
                ident = ident[:i] + d + ident[i:]
            if rng.random() < 0.1:
                ident = p + d + ident  # the identifier repeats the prefix it is requested under ("GO:GO:0032571")
            if framework_names and ((p == "docs" and rng.random() < 0.3) or (g == 0 and step == 0)):
                p, segs, ident = "docs", ["oauth2-redirect"], "oauth2-redirect"  # FastAPI's own /docs/oauth2-redirect
            asked.append((p, segs, ident))
        path = "/" + p + d + ident
        curie = p + d + ident
        want_loc = sp.expand(curie)
        want = (302, want_loc) if want_loc is not None else (422, None)
        got = {}
        for name, client in (("flask", fl), ("fastapi", fa)):
            S.tracing = True
            S.events = []
            try:
                if name == "flask":
                    r = client.get(path, follow_redirects=False)
                    res = (r.status_code, r.headers.get("Location"))
                else:
                    r = client.get(path, follow_redirects=False)
                    res = (r.status_code, r.headers.get("location"))
            except Exception as e:  # noqa: BLE001
                res = ("exception", f"{type(e).__name__}: {e}"[:200])
            finally:
                S.tracing = False
            handler_calls = [list(ev["args"][1:]) for ev in S.events if ev["fn"] == "expand_pair" and ev["depth"] == 0]
            S.events = []
            got[name] = res
            evaluated(f"resolver:{name}")
            ok = res[0] == want[0] and (want[0] != 302 or res[1] == want[1])
            if not ok:
                mech = "wrong-status-or-location"
                split_elsewhere = bool(handler_calls) and handler_calls[-1][:1] != [p]
                if res[0] == 404 and "/" in ident:
                    mech = "identifier-with-slash-not-routed"
                elif split_elsewhere and d in ident:
                    mech = "identifier-containing-delimiter-split-at-last-occurrence"
                elif want[0] == 302 and res[0] == 422:
                    mech = "known-prefix-answered-422"
                elif want[0] == 302 and res[0] == 302:
                    mech = "location-differs-from-expansion"
                # the listed known finding, computed exactly: FastAPI's own route /docs/oauth2-redirect answers 200 for the
                # prefix "docs" (known: 302 expected, unknown: 422 expected) and the identifier "oauth2-redirect" under the delimiter '/'
                if name == "fastapi" and d == "/" and path == "/docs/oauth2-redirect" and res[0] == 200:
                    mech = "fastapi-docs-oauth2-redirect-route-shadows-prefix-docs"
                violation(["C17"], f"resolver:{name}", mech, path=path, expected_status=want[0], expected_location=want[1],
                          status=res[0], location=res[1], handler_expand_pair_calls=handler_calls, **w0)
        evaluated("resolver:frameworks-agree")
        if got["flask"][0] != got["fastapi"][0] or (got["flask"][0] == 302 and got["flask"][1] != got["fastapi"][1]):
            mech = "frameworks-disagree"
            if "/" in ident and 404 in (got["flask"][0], got["fastapi"][0]):
                mech = "identifier-with-slash-not-routed"
            if d == "/" and path == "/docs/oauth2-redirect" and got["fastapi"][0] == 200 and got["flask"] == want:
                mech = "fastapi-docs-oauth2-redirect-route-shadows-prefix-docs"
            violation(["C17"], "resolver:frameworks-agree", mech, path=path, flask=got["flask"], fastapi=got["fastapi"], **w0)
        ow = sp.prefix_owner(p)
        pcls = "unknown" if ow is None else "canon" if ow.prefix == p else "syn"
        dpos = "" if d not in ident else "first" if ident.startswith(d) else "last" if ident.endswith(d) else "mid"
        feat = ("s" if "/" in ident else "") + ("d" + dpos if d in ident else "") + str(len(segs)) + ("x" if ident.count(d) > 1 else "") + f"r{len(recs)}" + ("g" if "registered_while_serving" in w0 else "")
        probe.note_key(f"{ {':': 'colon', '/': 'slash'}.get(d, 'd' + d) }:{pcls}:{feat}:{got['flask'][0]}/{got['fastapi'][0]}", "/" in ident or d in ident)
        S.counters["wl:requests"] += 2
    S.counters["wl:apps"] += 2
    if g % 41 == 0:
        probe.sample({**w0, "last_request": path, "expected": want, "flask": got["flask"], "fastapi": got["fastapi"]})

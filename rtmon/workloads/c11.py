"""C11 CURIE-prefix remapping renames records without losing information."""

from __future__ import annotations

from .. import gen, probe, spec
from ..mon_derive import curie_remap_rejection_reasons
from .common import call

PROP = "C11"
LEVEL = "exploration"
CASES = {"quick": 3000, "thorough": 1500000}
SHARDS = {"quick": 8, "thorough": 16}
ANCHORS = ["reconciliation.py:_order_curie_remapping", "reconciliation.py:remap_curie_prefixes"]
DECIDING = ["remap_curie_prefixes"]
RULE = (
    "bounded world: every remapping with at most 2 (quick) / 3 (thorough) pairs over seven names (canonical prefixes, "
    "synonyms, unknown strings) on two fixed converters (coverage.small_world_exhaustive). Random part: "
    "case = strict converter of 1-4 records with 0-2 CURIE-prefix synonyms each over the alphabet a..g (plus case "
    "variants), and a remapping of 1-4 pairs over known canonical prefixes, known synonyms and unknown strings: plain "
    "renames, chains and swaps (keys that are also values), self-maps, partially applicable chains, values that are "
    "synonyms of the same or of another record. The postcondition monitor (input snapshot taken before the call) demands "
    "either one of the four documented errors, justified by the restated rejection rules, or: same number of records, "
    "each keeping its canonical URI prefix and URI synonyms; every URI parsing to the same identifier under the record's "
    "possibly new name; every prefix known before still known; nothing invented; an old name staying with its record "
    "unless an applicable pair hands it to the key's record; an applicable pair onto an unused new prefix (that no other "
    "pair maps to) making it canonical; unknown old prefixes and new prefixes owned by other records being skipped; "
    "untouched records identical. key = shape of the remapping (per pair: key class -> value class, plus chain/swap/self "
    "markers) x outcome; non-trivial = some key is also a value, or a key or value is a synonym."
    ' The at-scale case adds five remappings of renames across the sort order mixed with clashing pairs (round 21).'
)
ASSUMPTIONS = ["CURIE remapping is delimiter-free: delimiters ':', '/', '::', '_' and prefixes containing another converter's delimiter are drawn", "two pairs onto one unknown new prefix: only one of them can win; the oracle does not demand both (DESIGN 7.3)"]

ALPHA = list("abcdefg") + ["A", "B"]


# ---- bounded-exhaustive small world: every remapping with <= 3 pairs over 7 names on two fixed converters ------------
import itertools

SMALL_NAMES = ["a", "s", "t", "b", "c", "y", "z"]
SMALL_CONVERTERS = [
    [spec.Rec("a", "http://u0/", ("s", "t"), ("http://s0/",), None), spec.Rec("b", "http://u1/", (), (), None)],
    [spec.Rec("a", "http://u0/", ("s",), (), None), spec.Rec("b", "http://u1/", ("t",), (), None), spec.Rec("c", "http://u2/", (), (), None)],
]


def small_remappings(kmax):
    out = []
    for k in range(1, kmax + 1):
        for keys in itertools.combinations(SMALL_NAMES, k):
            for vals in itertools.product(SMALL_NAMES, repeat=k):
                out.append(dict(zip(keys, vals)))
    return out


SMALL_CHUNK = 400
_SMALL = {}


def _world(tier):
    if tier not in _SMALL:
        _SMALL[tier] = [(ci, m) for ci in range(len(SMALL_CONVERTERS)) for m in small_remappings(3 if tier == "thorough" else 2)]
    return _SMALL[tier]


def small_world_case(ctx, g):
    import curies

    api, S = ctx.api, probe.S
    for ci, m in _world(ctx.tier)[g * SMALL_CHUNK:(g + 1) * SMALL_CHUNK]:
        c = api.Converter([gen.mk_record(api, r) for r in SMALL_CONVERTERS[ci]])
        call(curies.remap_curie_prefixes, c, dict(m))
        S.counters["wl:small-world-remappings"] += 1
    probe.note_key(f"small-world:chunk{g}", True)


def EXHAUSTIVE(tier, counters):
    n = counters.get("wl:small-world-remappings", 0)
    total = len(_world(tier))
    return {
        "small_world_exhaustive": n == total,
        "explanation": f"{n} of {total} remappings enumerated: every remapping with at most {3 if tier == 'thorough' else 2} pairs over the names {SMALL_NAMES} on {len(SMALL_CONVERTERS)} fixed converters; random cases beyond that are sampling",
    }


def at_scale_case(ctx, g, rng):
    import curies

    api, S = ctx.api, probe.S
    n = rng.choice([150, 400]) if ctx.tier == "thorough" else 90
    recs = gen.large_records(rng, n)
    with probe.monitor_mode():
        c = api.Converter([gen.mk_record(api, r) for r in recs])
    # (several remappings of the large converter, each over a sample of its own: renames that move a record to the
    #  front or to the back of any sorted order, followed by pairs onto prefixes that other records own - seed C11-W: a
    #  binary search over a list of records that the renames applied so far have un-sorted)
    for _round in range(5):
        some = rng.sample(recs, k=30)
        front = rng.random() < 0.5
        m = {}
        for i, r in enumerate(rng.sample(some, k=len(some))):
            if i % 3 == 0:
                m[r.prefix] = ("AA" if front else "zz") + r.prefix  # plain rename
            elif i % 3 == 1:
                m[r.prefix] = rng.choice(recs).prefix  # onto another record's prefix (or its own): skipped
            else:
                m["unknown" + str(i)] = "x" + str(i)
        call(curies.remap_curie_prefixes, c, m)
        S.counters["wl:at-scale:rename-then-clash-remappings"] += 1
    some = rng.sample(recs, k=30)
    m = {}
    for i, r in enumerate(some):
        style = i % 5
        if style == 0:
            m[r.prefix] = "new" + r.prefix  # plain rename
        elif style == 1 and r.psyn:
            m[r.psyn[0]] = "fresh" + str(i)  # rename through a synonym
        elif style == 2:
            m["unknown" + str(i)] = "x" + str(i)  # unknown old prefix: skipped
        elif style == 3:
            m[r.prefix] = some[(i + 1) % len(some)].prefix  # onto another record's prefix: skipped
        else:
            m[r.prefix] = r.psyn[0] if r.psyn else "only" + str(i)  # onto its own synonym
    call(curies.remap_curie_prefixes, c, m)
    # a renaming chain far longer than any recursion limit, written head first and tail first: one known record handed
    # along 1500 new names
    k = 1500
    head = some[0].prefix
    names = [head] + [f"link{i:04d}" for i in range(k)]
    chain_m = dict(zip(names, names[1:]))
    call(curies.remap_curie_prefixes, c, chain_m)
    call(curies.remap_curie_prefixes, c, dict(reversed(list(chain_m.items()))))
    S.counters["wl:long-renaming-chains"] += 2
    S.counters[f"wl:at-scale:n{n}"] += 1
    probe.note_key(f"at-scale:n{n}", True)


def run_case(ctx, g, rng):
    if g % (199 if ctx.tier == "quick" else 1601) == 198:
        return at_scale_case(ctx, g, rng)
    import curies

    api, S = ctx.api, probe.S
    if g * SMALL_CHUNK < len(_world(ctx.tier)):
        small_world_case(ctx, g)
    n = rng.randint(1, 4)
    d = rng.choice([":", ":", ":", "/", "::", "_"])
    alpha = ALPHA + (["obo:go", "x:"] if d != ":" else ["a.b", "a/b"])
    if rng.random() < 0.2:
        alpha = alpha + [x for x in gen.hostile(rng, 3, exclude=(d,)) if x not in alpha and x != ""]
        S.counters["wl:pools-seasoned"] += 1
    names = rng.sample(alpha, k=len(alpha))
    if rng.random() < 0.2:
        names.insert(rng.randrange(max(1, len(names) - 4), len(names) + 1), "")  # the default namespace as a (soon) known name
    recs = []
    for i in range(n):
        p = names.pop()
        ps = tuple(names.pop() for _ in range(rng.choice([0, 0, 1, 1, 2])) if len(names) > 2)
        us = tuple(f"http://s{i}{j}/" for j in range(rng.choice([0, 0, 1])))
        recs.append(spec.Rec(p, f"http://u{i}/", ps, us, None))
    sp = spec.SpecConverter(recs, d)
    known = [p for r in recs for p in spec.all_p(r)]
    # (new names may contain the converter's own delimiter: remapping is about names, not about CURIE syntax)
    unknown = [x for x in alpha + ["zz", "yy", "ncbi" + d + "geo", d + "n"] if x not in known]
    rng.shuffle(unknown)
    if rng.random() < 0.15 and "" not in known:
        unknown.insert(0, "")  # the empty prefix (the default namespace) is a name like any other - and falsy (seed C11-Q)
    if rng.random() < 0.3 and known:
        # an unknown name that a lenient reader would take for a known one (another letter case, a blank at the edge, a
        # byte order mark): unknown all the same - as old prefix it is skipped, as new prefix it is simply new
        tw = [x for x in gen.twins(rng.choice(known)) if x not in known and d not in x]
        if tw:
            unknown[:0] = rng.sample(tw, k=min(2, len(tw)))
            S.counters["wl:unknown-names-that-are-twins-of-known-ones"] += 1
    m = {}
    style = rng.choice(["random", "random", "chain", "swap", "self", "partial-chain", "onto-synonym"])
    if style == "random":
        for _ in range(rng.randint(1, 4)):
            m[rng.choice(known + unknown[:2])] = rng.choice(known + unknown[:3])
    elif style == "chain":
        seq = rng.sample(known + unknown[:2], k=min(rng.randint(2, 4), len(known) + 2))
        for a, b in zip(seq, seq[1:]):
            m[a] = b
    elif style == "swap":
        a = rng.choice(known)
        b = rng.choice(known + unknown[:1])
        m = {a: b, b: a}
    elif style == "self":
        a = rng.choice(known)
        m = {a: a}
        if rng.random() < 0.5:
            m[rng.choice(known)] = rng.choice(unknown)
    elif style == "partial-chain":
        a, b, x = rng.choice(unknown), rng.choice(known), rng.choice(unknown)
        m = {a: b, b: x} if rng.random() < 0.5 else {b: a, a: x}
    else:
        r = rng.choice(recs)
        if r.psyn:
            m[rng.choice([r.prefix, *r.psyn])] = rng.choice(r.psyn)
        else:
            m[r.prefix] = rng.choice(known)
        if rng.random() < 0.5:
            m[rng.choice(known)] = rng.choice(unknown)
    # the converter may have a past (registered record by record, grown through merges) and any delimiter
    c, how = gen.build(api, recs, d, rng, share_lists=True)
    S.counters[f"wl:build:{how}"] += 1
    o = call(curies.remap_curie_prefixes, c, dict(m))
    call(curies.remap_curie_prefixes, c, dict(m))  # the same call again on the same object: judged on its own

    def cls(x):
        ow = sp.prefix_owner(x)
        return "U" if ow is None else "C" if ow.prefix == x else "S"

    shape = sorted(cls(k) + (">" if k not in m.values() else "*>") + cls(v) + ("!" if v in m else "") + ("=" if sp.prefix_owner(k) is not None and sp.prefix_owner(k) is sp.prefix_owner(v) else "") for k, v in m.items())
    inter = bool(set(m) & set(m.values()))
    nontrivial = inter or any("S" in s for s in shape)
    outcome = "ok" if o[0] == "ret" else type(o[1]).__name__
    probe.note_key(f"{','.join(shape)}:{outcome}", nontrivial)
    S.counters[f"wl:outcome:{outcome}"] += 1
    S.counters[f"wl:style:{style}"] += 1
    if o[0] == "ret":
        res = o[1]
        for r in recs:
            call(res.compress, r.uri_prefix + "1")
            for p in spec.all_p(r):
                call(res.expand, p + d + "1")
        if g % 3 == 0:
            # a second remapping of the RESULT, keyed by the names the first one introduced and by the names it turned
            # into synonyms - judged on its own against the result's records; and a remapping of a converter that came
            # out of a URI-side reconciliation
            recs2 = list(spec.snapshot(res))
            introduced = [v for v in m.values() if any(v in spec.all_p(r) for r in recs2)]
            demoted = [k for k in m if any(k in r.psyn for r in recs2)]
            m2 = {}
            for j, k2 in enumerate(dict.fromkeys(introduced[:2] + demoted[:1])):
                if d not in k2:
                    m2[k2] = f"zzsecond{j}"
            if m2:
                S.counters["wl:second-call-on-a-result"] += 1
                call(curies.remap_curie_prefixes, res, m2)
            if recs2:
                r2 = rng.choice(recs2)
                o2 = call(curies.rewire, res, {r2.prefix: "http://zz.second/"})
                if o2[0] == "ret":
                    call(curies.remap_curie_prefixes, o2[1], {r2.prefix: "zzthird", **({r2.psyn[0]: "zzfourth"} if r2.psyn else {})})
    if g % 499 == 0:
        probe.sample({"records": [spec.rec_dict(r) for r in recs], "remapping": m,
                      "result": [spec.rec_dict(r) for r in spec.snapshot(o[1])] if o[0] == "ret" else outcome,
                      "rejection_reasons_by_model": curie_remap_rejection_reasons(sp, m)})

"""C03 Compression is lossless; compress and expand are inverse on prefix-free maps."""

from __future__ import annotations

import random

from .. import gen, probe, smallworld, spec
from ..probe import violation
from .common import call, growth_sweep, use_as_input_of_derivations

PROP = "C03"
LEVEL = "exploration"
CASES = {"quick": 640, "thorough": 160000}
SHARDS = {"quick": 8, "thorough": 16}
ANCHORS = [
    "api.py:Converter.parse_uri", "api.py:Converter.expand_reference", "api.py:Converter.expand_pair_all",
    "api.py:Converter.standardize_uri", "api.py:Converter.compress", "api.py:Converter.expand",
    "api.py:Converter.standardize_curie",
]
DECIDING = ["round-trip", "bijection-on-prefix-free"]
ALSO_COUNT = ["query-model:compress", "query-model:expand", "query-model:expand_all", "query-model:standardize_uri", "query-model:standardize_curie"]
RULE = (
    "case = random clash-free record set whose CURIE prefixes do not contain the delimiter (empty prefix included; half "
    "of the cases are forced pairwise prefix-free, the rest nest), built in a random way - every third case by registering "
    "record after record while URIs and CURIEs of the final map are already being looked up, and two thirds of the cases "
    "also attempt registrations that must be rejected (clash in a late field) whose strings are then put through the same "
    "relations; for every recognised URI u "
    "derived from it (identifiers include tails of other records' URI prefixes): u in expand_all(compress(u)), "
    "expand(compress(u)) == standardize_uri(u) (== u when u uses a canonical URI prefix), expand results compress again; "
    "on prefix-free maps additionally compress(expand(c)) == standardize_curie(c) and expand(compress(u)) == "
    "standardize_uri(u) for recognised c, u. All calls go through the real methods (monitored against the model). "
    "key = prefix-free? x how u matched (canonical / synonym / under two registered prefixes) x identifier class; "
    "non-trivial = u matched through a URI synonym, or lies under >= 2 registered prefixes, or the bijection clause ran."
    ' One case in 61: a registry-like map (a catch-all URI prefix with 40-260 URI prefixes nested under it) asked strings that sort before, between and after the nested prefixes (round 21).'
)
ASSUMPTIONS = ["the model only decides prefix-freeness; the relations are between the real methods' own answers"]


def make_prefix_free(recs):
    """Drop URI prefixes until no registered one is a proper prefix of another."""
    out, kept = [], []
    for r in recs:
        us = []
        for u in spec.all_u(r):
            if u != "" and not any(k.startswith(u) or u.startswith(k) for k in kept):
                kept.append(u)
                us.append(u)
        if us:
            out.append(r._replace(uri_prefix=us[0], usyn=tuple(us[1:])))
    return out


def small_world_relations(c, recs, d, q):
    """The round-trip relations of C03 on one string of the bounded world (the converter's own answers only)."""
    w = {"records": [spec.rec_dict(r) for r in recs], "delimiter": d, "built": "curie-small-world"}
    cu = call(c.compress, q)
    ex = call(c.expand, q)
    probe.evaluated("round-trip")
    if ex[0] == "ret" and ex[1] is not None:
        back = call(c.compress, ex[1])
        if back[0] != "ret" or back[1] is None:
            violation(["C03"], "round-trip", "expansion-not-compressible", curie=q, expanded=ex[1], **w)
    if cu[0] != "ret" or cu[1] is None:
        return
    curie = cu[1]
    ea, e, su = call(c.expand_all, curie), call(c.expand, curie), call(c.standardize_uri, q)
    if ea[0] != "ret" or ea[1] is None or q not in ea[1]:
        violation(["C03"], "round-trip", "uri-not-among-expand_all-of-its-curie", uri=q, curie=curie, expand_all=ea, **w)
    if probe.okey(e) != probe.okey(su) or e[0] != "ret" or e[1] is None:
        violation(["C03"], "round-trip", "expand-of-compress-differs-from-standardize_uri", uri=q, curie=curie, expand=e, standardize_uri=su, **w)
    if spec.SpecConverter(recs, d).prefix_free():
        probe.evaluated("bijection-on-prefix-free")
        sc = call(c.standardize_curie, curie)
        back = call(c.compress, e[1]) if e[0] == "ret" and e[1] is not None else None
        if back is not None and probe.okey(back) != probe.okey(sc):
            violation(["C03"], "bijection-on-prefix-free", "compress-of-expand-differs-from-standardize_curie", uri=q, curie=curie, back=back, standardize_curie=sc, **w)


def registry_like_case(ctx, g, rng):
    """A map shaped like the OBO PURL namespace: one catch-all record and dozens or hundreds of records whose URI prefixes
    extend it.  Strings under the catch-all that sort after, before and between all of them, and strings of the nested
    records, through the round-trip relations (seed C03-W: a sorted list of URI prefixes searched backwards through a
    window of 64 entries - the catch-all is further away than that)."""
    api, S = ctx.api, probe.S
    d = rng.choice([":", ":", "/"])
    n = rng.choice([40, 63, 64, 65, 70, 130, 260])
    base = rng.choice(["http://purl.obolibrary.org/obo/", "https://w3id.org/x/", "urn:"])
    names = []
    while len(names) < n:
        nm = "".join(rng.choice("ABCDEFGHIKLMNOPRSTUVWXYZ") for _ in range(rng.randint(2, 5)))
        if nm not in names and nm != "OBO":
            names.append(nm)
    recs = [spec.Rec("OBO", base, ("obo",), (), None)]
    for i, nm in enumerate(names):
        usyn = (base + nm.lower() + "#",) if i % 4 == 0 else ()
        recs.append(spec.Rec(nm, base + nm + "_", (nm.lower(),) if i % 3 == 0 else (), usyn, None))
    with probe.monitor_mode():  # (the build is not the subject; its hooks cost O(n) per registration)
        c, how = gen._build(api, recs, d, rng, rng.choice(["ctor", "incremental", "mixed"]))
    S.counters[f"wl:registry-like:n{n}:{how}"] += 1
    tails = ["ZZZ_0000001", "zfa#part_of", "ro.owl", "AAA_1", "~x", "0", "", "_", "zzzz", rng.choice(names) + "-1", rng.choice(names)[:-1] + "_1", rng.choice(names).lower() + "_7"]
    for t in tails:
        small_world_relations(c, recs, d, "OBO" + d + t)
        small_world_relations(c, recs, d, "obo" + d + t)
        small_world_relations(c, recs, d, base + t)
    for nm in rng.sample(names, k=12):
        small_world_relations(c, recs, d, nm + d + "0000001")
        small_world_relations(c, recs, d, base + nm + "_0000001")
        small_world_relations(c, recs, d, base + nm.lower() + "#x")
    probe.note_key(f"registry-like:n{n}", True)


def run_case(ctx, g, rng):
    if g % 61 == 60:
        registry_like_case(ctx, g, random.Random(f"registry-like/{g}/{rng.random()}"))
    d_ = rng.choice([":", ":", "/"])
    growth_sweep(ctx, rng, d_, g, relate=lambda c_, q: small_world_relations(c_, spec.snapshot(c_), d_, q))
    if smallworld.active(ctx, g):
        for c_, recs_, d_ in smallworld.chunk(ctx, g):
            for q in smallworld.queries(ctx.tier, d_):
                small_world_relations(c_, recs_, d_, q)
        probe.note_key(f"curie-small-world:chunk{g % 40}", True)
    api, S = ctx.api, probe.S
    d = rng.choice(gen.DELIMS)
    recs = gen.records(rng, d, 0, 5)
    if g % 2 == 0:
        recs = make_prefix_free(recs)
    if not recs:
        return
    allu = [u for r in recs for u in spec.all_u(r)]
    if g % 3 == 1:
        # history route: URIs and CURIEs are looked up while (part of) the map is still unregistered
        c = api.Converter([], delimiter=d)
        how = "queried-while-growing"
        for r in rng.sample(recs, k=len(recs)):
            for u0 in allu[:6]:
                call(c.compress, u0 + "1")
                call(c.standardize_uri, u0 + "1")
            for p0 in spec.all_p(r)[:2]:
                call(c.expand, p0 + d + "1")
            if rng.random() < 0.5:
                call(c.add_record, gen.mk_record(api, r))
            else:
                call(c.add_prefix, r.prefix, r.uri_prefix, list(r.psyn), list(r.usyn))
    else:
        c, how = gen.build(api, recs, d, rng)
    # strings registered on the *original* of a copied converter after the copy was taken (gen._circumstance): ghosts too
    ghost_u, ghost_p = list(gen.SPECIAL_URIS), list(gen.SPECIAL_PREFIXES)
    if g % 3 != 0 and recs:
        # registrations that must be rejected (clash in a late field); afterwards their strings are ghosts that
        # must neither compress nor expand - asked through the same round-trip relations below
        for k in range(2):
            r0 = rng.choice(recs)
            gp, gs, gu, gus = f"gh{k}", f"ghs{k}", f"http://gh{k}.org/", f"http://ghs{k}.org/"
            kind = rng.choice(["uri-synonym", "prefix-synonym", "uri-prefix"])
            if kind == "uri-synonym":
                o = call(c.add_prefix, gp, gu, [gs], [gus, rng.choice(spec.all_u(r0))])
            elif kind == "prefix-synonym":
                o = call(c.add_prefix, gp, gu, [gs, rng.choice(spec.all_p(r0))], [gus])
            else:
                o = call(c.add_prefix, gp, rng.choice(spec.all_u(r0)), [gs], [gus])
            if o[0] == "raise":
                ghost_u += [gu, gus]
                ghost_p += [gp, gs]
                S.counters[f"wl:rejected-registration:{kind}"] += 1
        how += "+rejections"
    sp = spec.SpecConverter(recs, d)
    pf = sp.prefix_free()
    tails = [u2[len(u1):] for u1 in allu for u2 in allu if u2 != u1 and u2.startswith(u1)]
    ids = ["1"] + rng.sample(gen.IDS, k=4) + tails[:4] + ["", d, rng.choice(gen.UNICODE)]
    w = {"records": [spec.rec_dict(r) for r in recs], "delimiter": d, "prefix_free": pf}
    for p in ghost_p:  # every URI produced by expand is itself compressible and round-trips
        curie = p + d + "1"
        e = call(c.expand, curie)
        probe.evaluated("round-trip")
        if e[0] == "ret" and e[1] is not None:
            back = call(c.compress, e[1])
            if back[0] != "ret" or back[1] is None:
                violation(["C03"], "round-trip", "expansion-not-compressible", curie=curie, expanded=e[1], note="prefix of a rejected registration", **w)
            elif call(c.expand, back[1]) != e:
                violation(["C03"], "round-trip", "compress-of-expand-differs-from-standardize_curie", curie=curie, expanded=e[1], compressed=back, note="prefix of a rejected registration", **w)
        probe.note_key(f"ghost-curie:pf{int(pf)}", True)
    # the registered URI prefixes with one character percent-encoded, or in the other Unicode normalisation form:
    # other strings - if the converter recognises them all the same, the round trip must still hold for them
    import unicodedata

    respelt = []
    for u0 in allu[:4]:
        if u0:
            k = rng.randrange(len(u0))
            respelt.append(u0[:k] + "%%%02X" % (ord(u0[k]) & 0xFF) + u0[k + 1:])
            respelt += [v for v in (unicodedata.normalize("NFC", u0), unicodedata.normalize("NFD", u0)) if v != u0]
    for u0 in allu + ghost_u + respelt:
        for i in ids:
            u = u0 + i
            cu = call(c.compress, u)
            if cu[0] != "ret" or cu[1] is None:
                continue
            curie = cu[1]
            probe.evaluated("round-trip")
            pu = call(c.parse_uri, u, return_none=True)
            if pu[0] == "ret" and pu[1] is not None:
                call(c.expand_reference, pu[1])
                call(c.expand_pair_all, pu[1].prefix, pu[1].identifier)
            call(c.standardize_curie, curie)
            ea = call(c.expand_all, curie)
            e = call(c.expand, curie)
            su = call(c.standardize_uri, u)
            if ea[0] != "ret" or ea[1] is None or u not in ea[1]:
                violation(["C03"], "round-trip", "uri-not-among-expand_all-of-its-curie", uri=u, curie=curie, expand_all=ea, **w)
            if probe.okey(e) != probe.okey(su) or e[0] != "ret" or e[1] is None:
                violation(["C03"], "round-trip", "expand-of-compress-differs-from-standardize_uri", uri=u, curie=curie, expand=e, standardize_uri=su, **w)
            m = sp.uri_matches(u)
            owner = sp.uri_owner(u)
            canonical = owner is not None and owner[0] == owner[1].uri_prefix
            if canonical and e != ("ret", u):
                violation(["C03"], "round-trip", "canonical-uri-not-restored", uri=u, curie=curie, expand=e, **w)
            if e[0] == "ret" and e[1] is not None and call(c.compress, e[1])[1] is None:
                violation(["C03"], "round-trip", "expansion-not-compressible", uri=u, expanded=e[1], **w)
            if pf:
                probe.evaluated("bijection-on-prefix-free")
                back = call(c.compress, e[1]) if e[0] == "ret" and e[1] is not None else None
                sc = call(c.standardize_curie, curie)
                if back is None or probe.okey(back) != probe.okey(sc) or back[1] is None:
                    violation(["C03"], "bijection-on-prefix-free", "compress-of-expand-differs-from-standardize_curie",
                              uri=u, curie=curie, compress_expand=back, standardize_curie=sc, **w)
            mcls = "ghost" if u0 in ghost_u else "multi" if len(m) >= 2 else "canonical" if canonical else "synonym"
            icls = "tail" if i in tails else "empty" if i == "" else "delim" if d in i else "other"
            probe.note_key(f"pf{int(pf)}:{mcls}:{icls}:{'colon' if d == ':' else 'other'}", nontrivial=pf or mcls != "canonical")
            S.counters["wl:uris"] += 1
    # CURIE side of the bijection
    if pf:
        for r in recs:
            for p in spec.all_p(r):
                for i in ids[:5]:
                    curie = p + d + i
                    if curie.find(d) != len(p):
                        continue
                    e = call(c.expand, curie)
                    if e[0] != "ret" or e[1] is None:
                        violation(["C03"], "bijection-on-prefix-free", "known-curie-does-not-expand", curie=curie, expand=e, **w)
                        continue
                    probe.evaluated("bijection-on-prefix-free")
                    back, sc = call(c.compress, e[1]), call(c.standardize_curie, curie)
                    if probe.okey(back) != probe.okey(sc) or back[1] is None:
                        violation(["C03"], "bijection-on-prefix-free", "compress-of-expand-differs-from-standardize_curie",
                                  curie=curie, expanded=e[1], compress_expand=back, standardize_curie=sc, **w)
                    e2 = call(c.expand, back[1]) if back[0] == "ret" and back[1] else None
                    if e2 != e:
                        violation(["C03"], "bijection-on-prefix-free", "standard-curie-expands-differently", curie=curie, **w)
                    probe.note_key(f"pf1:curie:{'syn' if p != r.prefix else 'canon'}:{'empty' if p == '' else 'p'}", True)
                    S.counters["wl:curies"] += 1
    if g % 4 == 3:
        for x in use_as_input_of_derivations(api, c, rng):
            cu = call(c.compress, x)
            if cu[0] == "ret" and cu[1] is not None:
                probe.evaluated("round-trip")
                ea, e, su = call(c.expand_all, cu[1]), call(c.expand, cu[1]), call(c.standardize_uri, x)
                if ea[0] != "ret" or ea[1] is None or x not in ea[1] or probe.okey(e) != probe.okey(su):
                    violation(["C03"], "round-trip", "uri-not-among-expand_all-of-its-curie", uri=x, curie=cu[1], expand_all=ea, expand=e, standardize_uri=su,
                              note="asked after the converter was used as an input of chain / get_subconverter", **w)
            e = call(c.expand, x + d + "1")
            if e[0] == "ret" and e[1] is not None and call(c.compress, e[1])[1] is None:
                violation(["C03"], "round-trip", "expansion-not-compressible", curie=x + d + "1", expanded=e[1],
                          note="asked after the converter was used as an input of chain / get_subconverter", **w)
    if g % 151 == 0 and allu:
        u = allu[0] + "1"
        probe.sample({**w, "built": how, "uri": u, "compress": call(c.compress, u), "standardize_uri": call(c.standardize_uri, u)})


def EXHAUSTIVE(tier, counters):
    return smallworld.exhaustive(tier, counters)

"""C10 Deriving a new converter never alters the converters it was derived from."""

from __future__ import annotations

from .. import gen, probe, spec
from .common import call
from .c09 import gconv

PROP = "C10"
LEVEL = "exploration"
CASES = {"quick": 900, "thorough": 600000}
SHARDS = {"quick": 8, "thorough": 16}
ANCHORS = [
    "api.py:chain", "api.py:Converter.get_subconverter", "api.py:Converter._merge",
    "reconciliation.py:remap_curie_prefixes", "reconciliation.py:remap_uri_prefixes", "reconciliation.py:rewire",
    "discovery.py:discover", "discovery.py:_get_uri_prefix_to_luids", "api.py:Converter.add_prefix",
]
DECIDING = [
    "frame:chain", "frame:get_subconverter", "frame:remap_curie_prefixes", "frame:remap_uri_prefixes", "frame:rewire",
    "frame:discover", "frame:add_prefix",
]
RULE = (
    "case = a history: build 1-3 strict converters; apply one of the six derivations (chain, get_subconverter, "
    "remap_curie_prefixes, remap_uri_prefixes, rewire, discover(converter=...)) with arguments chosen to have an effect "
    "(overlapping chain partner, applicable remapping / rewiring, prefixes that select records); optionally derive again "
    "from the result; then 0-3 add_prefix / add_record(merge=True) steps on the derived converter aimed at records it "
    "may share with an input. Around every derivation and every add_* call the frame monitor fingerprints every "
    "converter alive in the case (ordered record dumps, the five lookup structures, delimiter, get_prefixes / "
    "get_uri_prefixes with and without synonyms, bimap, reverse_bimap, answers to expand / expand_all / "
    "standardize_prefix / compress / standardize_uri probes derived from its own strings) and demands that nobody but "
    "the declared target (self for add_*; nobody for derivations) changed. key = derivation x whether it had an effect x "
    "number of follow-up steps x second derivation; non-trivial = the derivation changed something relative to its "
    "input (result records differ) or follow-up steps merged into a shared record."
    ' At scale (90-400 records) every product of remap_* / rewire is extended by merges into untouched records and the input compared afterwards (round 21).'
)
ASSUMPTIONS = ["'observably unchanged' is read as equality of the fingerprint listed in the rule (public attributes and query answers)"]


def derive(api, rng, convs, recs_of):
    """-> (kind, outcome, inputs used, thunk that issues exactly the same call once more)"""
    import curies

    c = rng.choice(convs)
    recs = list(spec.snapshot(c))
    allp = [p for r in recs for p in spec.all_p(r)]
    allu = [u for r in recs for u in spec.all_u(r)]
    kind = rng.choice(["chain", "chain", "sub", "remap_curie", "remap_uri", "rewire", "discover"])
    if kind == "chain":
        k = rng.randint(1, len(convs))
        order = rng.sample(convs, k=k)
        cs = rng.random() < 0.6
        again = lambda: call(api.chain, order, case_sensitive=cs)  # noqa: E731
        return kind, again(), order, again
    if kind == "sub":
        P = rng.sample(allp, k=rng.randint(1, len(allp))) if allp else []
        if rng.random() < 0.2:
            P = rng.choice([p for p in allp if p] or ["ab"])  # a bare string: the iterable of its characters
        again = lambda: call(c.get_subconverter, P)  # noqa: E731
        return kind, again(), [c], again
    if kind == "remap_curie":
        m = {}
        for _ in range(rng.randint(1, 3)):
            k = rng.choice(allp + ["zz"])
            m[k] = rng.choice(["n1", "n2", "N1"] + allp)
        if rng.random() < 0.2:
            m = rng.choice(convs).synonym_to_prefix if hasattr(c, "synonym_to_prefix") else m
            probe.S.counters["wl:mapping-argument-is-a-live-attribute"] += 1
        again = lambda: call(curies.remap_curie_prefixes, c, m)  # noqa: E731
        return kind, again(), [c], again
    if kind == "remap_uri":
        m = {}
        for _ in range(rng.randint(1, 3)):
            k = rng.choice(allu + ["zz/"])
            m[k] = rng.choice(["n/", "m/", "N/"] + allu)
        if rng.random() < 0.2:
            other = rng.choice(convs)
            m = {u: "adopted/" + p for u, p in other.reverse_prefix_map.items()} if rng.random() < 0.5 else other.reverse_prefix_map
            probe.S.counters["wl:mapping-argument-is-a-live-attribute"] += 1
        again = lambda: call(curies.remap_uri_prefixes, c, m)  # noqa: E731
        return kind, again(), [c], again
    if kind == "rewire":
        m = {}
        for _ in range(rng.randint(1, 3)):
            m[rng.choice(allp + ["zz"])] = rng.choice(["n/", "m/", "N/"] + allu)
        if rng.random() < 0.25:
            # the rewiring is a live public attribute of a converter of the case (its prefix_map has exactly the shape
            # of a rewiring: "adopt that converter's URI prefixes"): aliasing must not let the call write into it
            m = rng.choice(convs).prefix_map
            probe.S.counters["wl:mapping-argument-is-a-live-attribute"] += 1
        again = lambda: call(curies.rewire, c, m)  # noqa: E731
        return kind, again(), [c], again
    uris = [u + str(i) for u in (allu + ["http://d/", "http://d/x_"]) for i in range(2)]
    cut = rng.choice([None, 1, 2])
    again = lambda: call(curies.discover, uris, converter=c, cutoff=cut)  # noqa: E731
    return kind, again(), [c], again


def at_scale_case(ctx, g, rng):
    """the derivations on an input far above any plausible threshold; the frame monitor fingerprints as usual"""
    import curies

    api, S = ctx.api, probe.S
    n = rng.choice([150, 400]) if ctx.tier == "thorough" else rng.choice([90, 140, 270])
    recs = gen.large_records(rng, n)
    with probe.monitor_mode():
        c = api.Converter([gen.mk_record(api, r) for r in recs])
        other = api.Converter([api.Record(prefix=f"q{i}", uri_prefix=r.uri_prefix, uri_prefix_synonyms=[f"http://q/{i}/"]) for i, r in enumerate(rng.sample(recs, k=20))])
    some = rng.sample(recs, k=25)
    call(api.chain, [c, other])
    call(api.chain, [other, c], case_sensitive=False)
    o = call(c.get_subconverter, [r.prefix for r in some])
    if o[0] == "ret":
        r0 = some[0]
        call(o[1].add_prefix, r0.prefix, r0.uri_prefix, ["zzsyn"], ["http://zz.syn/"], merge=True)
    # every product is extended afterwards, by merges into records the derivation did not touch: the large input stays
    # what it was (seed C10-W: above a number of records the copies are shallow, the synonym lists shared)
    base = spec.snapshot(c)
    chosen = {r.prefix for r in some}
    untouched = [r for r in recs if r.prefix not in chosen][:3]
    for name, od in (
        ("remap_curie_prefixes", call(curies.remap_curie_prefixes, c, {r.prefix: "new" + r.prefix for r in some})),
        ("remap_uri_prefixes", call(curies.remap_uri_prefixes, c, {r.uri_prefix: "http://moved/" + r.prefix + "/" for r in some})),
        ("rewire", call(curies.rewire, c, {r.prefix: "http://rewired/" + r.prefix + "/" for r in some})),
    ):
        if od[0] != "ret":
            continue
        for k, r in enumerate(untouched):
            call(od[1].add_prefix, r.prefix, r.uri_prefix, [f"zzleak{k}"], [f"http://zz.leak/{k}/"], merge=True)
        probe.evaluated("input-unchanged-after-the-result-was-extended")
        now = spec.snapshot(c)
        if now != base:
            bad = next((a, b) for a, b in zip(base, now) if a != b) if len(base) == len(now) else (len(base), len(now))
            probe.violation(["C10"], "input-unchanged-after-the-result-was-extended", "later-change-of-the-result-shows-in-the-input",
                            derivation=name, records_of_the_input=n, first_difference=repr(bad)[:600])
            base = now
    call(curies.discover, [r.uri_prefix + str(i) for r in some for i in range(3)] + [f"http://d/{i}" for i in range(50)], converter=c)
    S.counters[f"wl:at-scale:n{n}"] += 1
    probe.note_key(f"at-scale:n{n}", True)


def run_case(ctx, g, rng):
    if g % (127 if ctx.tier == "quick" else 1021) == 126:
        return at_scale_case(ctx, g, rng)
    api, S = ctx.api, probe.S
    # inputs with a past: constructed, registered record by record, or grown through merges (DESIGN 11.4)
    inputs = [gen.build(api, gconv(rng), ":", rng, share_lists=True)[0] for _ in range(rng.randint(1, 3))]
    before = [spec.snapshot(c) for c in inputs]
    kind, o, used, again = derive(api, rng, inputs, before)
    S.counters[f"wl:derive:{kind}:{o[0]}"] += 1
    if o[0] == "raise":
        probe.note_key(f"{kind}:raised", False)
        return
    d1 = first = o[1]
    first_records = spec.snapshot(first)
    effect = all(sorted(map(spec.norm, spec.snapshot(d1)), key=repr) != sorted(map(spec.norm, spec.snapshot(u)), key=repr) for u in used)
    second = None
    if rng.random() < 0.35:
        second, o2, _, _ = derive(api, rng, [d1, *inputs], None)
        if o2[0] == "ret":
            d1 = o2[1]
    # follow-up steps on the derived converter, aimed at records it may share with an input
    steps = rng.randint(0, 3)
    merged = 0
    for _ in range(steps):
        recs = list(spec.snapshot(d1))
        if not recs:
            break
        r = rng.choice(recs)
        style = rng.random()
        newp = rng.choice(["zz1", "ZZ2", "q"])
        newu = rng.choice(["http://new/", "new#", "http://q/"])
        if style < 0.45:
            o = call(d1.add_prefix, r.prefix, newu, [newp], merge=True)
        elif style < 0.8:
            o = call(d1.add_prefix, newp, r.uri_prefix, None, [newu], merge=True, case_sensitive=rng.random() < 0.7)
        elif style < 0.9:
            syn = [x for x in [rng.choice(spec.all_p(r))] if x != newp]
            o = call(d1.add_record, api.Record(prefix=newp, uri_prefix=newu, prefix_synonyms=syn), merge=True)
        else:
            o = call(d1.add_prefix, newp + "x", newu + "x/")
        merged += o[0] == "ret"
    if g % 2 == 0:
        # the same derivation once more, with the same arguments, after the first result has been modified: "returns a
        # new converter" - a derivation that hands out what it handed out before (seed C10-O: results memoised on the
        # input) returns the caller's additions with it
        o3 = again()
        probe.evaluated("derivation-repeated-after-the-result-was-modified")
        if o3[0] == "ret" and (o3[1] is first or spec.snapshot(o3[1]) != first_records):
            probe.violation(["C10"], "derivation-repeated-after-the-result-was-modified",
                      "repeated-derivation-returns-the-earlier-result-object" if o3[1] is first else "repeated-derivation-differs-from-the-first-although-the-inputs-are-unchanged",
                      derivation=kind, first_result=[spec.rec_dict(r) for r in first_records],
                      first_result_now=[spec.rec_dict(r) for r in spec.snapshot(first)],
                      repeated_result=[spec.rec_dict(r) for r in spec.snapshot(o3[1])],
                      inputs=[[spec.rec_dict(r) for r in b] for b in before])
        elif o3[0] != "ret":
            probe.violation(["C10"], "derivation-repeated-after-the-result-was-modified", "repeated-derivation-raises-although-the-first-succeeded",
                      derivation=kind, observed=o3[1], inputs=[[spec.rec_dict(r) for r in b] for b in before])
    for c in inputs:  # a last look through the public API (monitored against the records)
        for r in spec.snapshot(c)[:2]:
            call(c.expand, r.prefix + ":1")
            call(c.compress, r.uri_prefix + "1")
    probe.note_key(f"{kind}:effect{int(effect)}:steps{min(merged, 2)}:{second}", effect or merged > 0)
    S.counters["wl:histories"] += 1
    if g % 171 == 0:
        probe.sample({"inputs": [[spec.rec_dict(r) for r in b] for b in before], "derivation": kind, "second": second,
                      "follow_up_steps": steps, "inputs_after": [[spec.rec_dict(r) for r in spec.snapshot(c)] for c in inputs]})

"""C09 chain is a priority union of converters and get_subconverter a restriction."""

from __future__ import annotations

from .. import gen, probe, spec
from ..probe import violation
from .common import call

PROP = "C09"
LEVEL = "exploration"
CASES = {"quick": 900, "thorough": 600000}
SHARDS = {"quick": 8, "thorough": 16}
ANCHORS = ["api.py:chain", "api.py:_eq", "api.py:_in", "api.py:Converter.get_subconverter", "api.py:Converter.add_record", "api.py:Converter._merge"]
# public functions the driver does not call itself (the library reaches them internally today): missing => reported, not inconclusive
SOFT_ANCHORS = ['api.py:Converter.add_record']
DECIDING = ["chain", "get_subconverter", "sub-answers", "chain-of-one-answers"]
RULE = (
    "case = 1-4 strict converters of 1-3 records over a shared tiny alphabet (CURIE prefixes a A b B ab c C and the empty "
    "one; URI prefixes u/ U/ u/x v/ V/ v w# W# and the empty one) so that records overlap on CURIE prefixes, URI prefixes, "
    "synonyms and letter case, later records matching earlier ones only through a synonym, and bridging records; chained "
    "in both case-sensitivity modes. The chain monitor folds the captured input records with an independent set-based "
    "model: ValueError only if a record bridges two groups; otherwise C04/C05 invariants, exact union of CURIE and URI "
    "prefixes, input records kept together, group heads (first record in converter order, then record order) providing "
    "the canonical values, c1's expansions preserved in case-sensitive mode, chain([c]) equivalent to c, no case-variant "
    "prefixes in two records when case-insensitive; the input converters are then used again (chain([c]) must answer "
    "exactly as c does, also after c took part in a larger chain). Then get_subconverter(P) for P drawn from canonical prefixes, "
    "synonyms, unknown strings and the empty set: records exactly those with a prefix in P; the driver checks that "
    "dropped records' CURIEs do not expand and that URIs whose owner is kept compress as in the parent. key = number of "
    "converters x overlap kinds between them (curie / uri / case-only / via-synonym / bridge) x mode x outcome; non-trivial "
    "= at least two converters overlap, or P contains a synonym / unknown string / is empty."
    ' The at-scale chain includes a record with 31-300 synonyms one of which a record of the second converter re-uses (round 21).'
)
ASSUMPTIONS = ["fold model rtmon.spec.chain_fold", "default delimiter ':' (the delimiter is not among the dimensions C09 quantifies over)"]

PA = ["a", "A", "b", "B", "ab", "c", "C", "", "AB", "ss", "ß", "s", "ſ", "a,b", " a", "a "]
# (twins under well-meant equivalences - letter case, http / https, a blank at the edge - are different strings: they may
#  sit in different records of one converter, and chaining must keep them apart)
UA = ["u/", "U/", "u/x", "v/", "V/", "v", "", "w#", "W#", "u/X", "http://t/n/", "https://t/n/", "http://t/n", " u/"]


def setup(ctx):
    import numpy
    import pandas

    ctx.pd, ctx.np = pandas, numpy


def rrec(rng, pa=PA, ua=UA):
    p, u = rng.choice(pa), rng.choice(ua)
    # synonyms in the order drawn, not sorted: the order of a record's lists is part of the record
    ps = tuple(q for q in rng.sample(pa, k=rng.randint(0, 2)) if q != p)
    us = tuple(q for q in rng.sample(ua, k=rng.randint(0, 2)) if q != u)
    return spec.Rec(p, u, ps, us, rng.choice([None, None, "^\\d+$", "x"]))


def gconv(rng):
    pa, ua = PA, UA
    if rng.random() < 0.2:
        # the small pools keep overlaps between converters likely; one case in five seasons them with value classes
        # collected from the seeded changes (gen.HOSTILE_P / HOSTILE_U) - used by every converter of the case
        if not hasattr(rng, "_c09_spice"):
            rng._c09_spice = (gen.hostile(rng, 3, exclude=(":",)), gen.hostile(rng, 3, uri=True))
        pa, ua = PA + [x for x in rng._c09_spice[0] if x not in PA], UA + [x for x in rng._c09_spice[1] if x not in UA]
    for _ in range(60):
        recs = [rrec(rng, pa, ua) for _ in range(rng.randint(1, 3))]
        if spec.is_unique(recs):
            return recs
    return [rrec(rng)]


def overlap_kinds(convs):
    kinds = set()
    for i in range(len(convs)):
        for j in range(i + 1, len(convs)):
            for a in convs[i]:
                for b in convs[j]:
                    pa, pb, ua, ub = set(spec.all_p(a)), set(spec.all_p(b)), set(spec.all_u(a)), set(spec.all_u(b))
                    if pa & pb:
                        kinds.add("curie" if a.prefix in pb or b.prefix in pa else "curie-syn")
                    elif {x.casefold() for x in pa} & {x.casefold() for x in pb}:
                        kinds.add("curie-case")
                    if ua & ub:
                        kinds.add("uri" if a.uri_prefix in ub or b.uri_prefix in ua else "uri-syn")
                    elif {x.casefold() for x in ua} & {x.casefold() for x in ub}:
                        kinds.add("uri-case")
    return kinds


def at_scale_case(ctx, g, rng):
    """chain / get_subconverter on converters far above any plausible threshold (monitors as usual)."""
    api, S = ctx.api, probe.S
    n = rng.choice([150, 400]) if ctx.tier == "thorough" else 90
    a = gen.large_records(rng, n)
    # the second converter re-describes a third of the first one's records under other names (merges through URI
    # prefixes and through synonyms) and brings records of its own
    b = []
    for i, r in enumerate(rng.sample(a, k=n // 3)):
        if i % 2:
            b.append(spec.Rec(f"q{i}", r.uri_prefix, (), (f"http://q/{i}/",), None))
        else:
            b.append(spec.Rec(r.prefix, f"http://q/{i}#", (f"Q{i}",), (), None))
    b += [spec.Rec(f"own{i}", f"http://own/{i}/", (), (), None) for i in range(n // 3)]
    # one record of the first converter lists dozens or hundreds of synonyms, in the order its author wrote them, and a
    # record of the second converter re-uses one of them (seed C09-W: above a number of synonyms the match bisects a
    # list nobody sorted; the re-user becomes a record of its own)
    k = rng.choice([31, 32, 33, 40, 64, 120, 300])
    side = rng.choice(["curie", "uri"])
    names = [f"syn{i}" for i in range(k)] if side == "curie" else [f"http://prov.org/{i}/" for i in range(k)]
    if rng.random() < 0.5:
        rng.shuffle(names)
    victim = rng.choice(names)
    if side == "curie":
        a.append(spec.Rec("mm", "http://mm.org/", tuple(names), (), None))
        b.append(spec.Rec(victim, "http://mmclaim.org/", (), (), None) if rng.random() < 0.5 else spec.Rec("mmclaim", "http://mmclaim.org/", (victim,), (), None))
    else:
        a.append(spec.Rec("mm", "http://mm.org/", (), tuple(names), None))
        b.append(spec.Rec("mmclaim", victim, (), (), None) if rng.random() < 0.5 else spec.Rec("mmclaim", "http://mmclaim.org/", (), (victim,), None))
    S.counters[f"wl:at-scale:many-synonyms:{side}:k{k}"] += 1
    with probe.monitor_mode():
        ca = api.Converter([gen.mk_record(api, r) for r in a])
        cb = api.Converter([gen.mk_record(api, r) for r in b])
    o = call(api.chain, [ca, cb], case_sensitive=rng.random() < 0.7)
    S.counters[f"wl:at-scale:n{n}:{o[0]}"] += 1
    if o[0] == "ret":
        res = o[1]
        for r in rng.sample(a, k=8) + rng.sample(b, k=8) + [a[-1], b[-1]]:
            call(res.expand, r.prefix + ":1")
            call(res.compress, r.uri_prefix + "1")
        call(res.expand, victim + ":1") if side == "curie" else call(res.compress, victim + "1")
        P = [r.prefix for r in rng.sample(a, k=40)] + ["Q0", "zz"]
        call(res.get_subconverter, P)
        call(res.get_subconverter, ctx.pd.Series(P, dtype=object))
        # the parent, already subset once, learns new synonyms through merges (its number of records stays what it is)
        # and is subset again by exactly those synonyms
        learnt = []
        for r in rng.sample(a, k=5):
            alias = "alias" + r.prefix
            call(res.add_prefix, alias, r.uri_prefix, merge=True)
            learnt.append(alias)
        call(res.get_subconverter, learnt[:2])
        call(res.get_subconverter, [learnt[-1]])
        call(res.get_subconverter, learnt + ["zz"])
    probe.note_key(f"at-scale:n{n}:{o[0]}", True)


def run_case(ctx, g, rng):
    if g % (89 if ctx.tier == "quick" else 709) == 88:
        return at_scale_case(ctx, g, rng)
    api, S = ctx.api, probe.S
    n = rng.choice([1, 2, 2, 3, 3, 4])
    convs = [gconv(rng) for _ in range(n)]
    if rng.random() < 0.06:
        # two descriptions of one record in two converters whose synonym lists differ although their comma-joined
        # spellings coincide (["a,b"] against ["a", "b"]): nothing of either may get lost
        twin = rng.choice(["curie", "uri"])
        one = spec.Rec("tw", "tw/", ("x,y",) if twin == "curie" else (), ("tw/1,tw/2",) if twin == "uri" else (), None)
        two = spec.Rec("tw", "tw/", ("x", "y") if twin == "curie" else (), ("tw/1", "tw/2") if twin == "uri" else (), None)
        convs = [[one], [two]] if rng.random() < 0.5 else [[two], [one]]
        n = 2
        S.counters["wl:comma-twins"] += 1
    cs = rng.random() < 0.5
    # (every second case: the inputs have a past of their own - registered record by record, grown through merges from
    #  bare records whose synonym fields were never set, copied, pickled ... - seed C09-S: a copy by
    #  model_dump(exclude_unset=True) forgets what was appended in place)
    if g % 2 == 0:
        real = []
        for recs in convs:
            c_, how_ = gen.build(api, recs, ":", rng, rejections=False)
            S.counters[f"wl:build:{how_.split('+')[0]}"] += 1
            real.append(c_)
    else:
        real = [api.Converter([gen.mk_record(api, r) for r in recs]) for recs in convs]
    ordered = [list(spec.snapshot(c)) for c in real]
    o = call(api.chain, real, case_sensitive=cs)
    kinds = overlap_kinds(ordered)
    groups, bridge = spec.chain_fold(ordered, cs)
    if bridge is not None:
        kinds.add("bridge")
    S.counters[f"wl:chain:{'ok' if o[0] == 'ret' else 'rejected'}"] += 1
    key = f"n{n}:{'+'.join(sorted(kinds)) or 'disjoint'}:cs{int(cs)}:{o[0]}"
    # the inputs are used again after having been chained: chain([c]) and c must still answer alike
    for c_in, before in zip(real[:2], ordered[:2]):
        again = call(api.chain, [c_in], case_sensitive=True)
        probe.evaluated("chain-of-one-answers")
        if again[0] == "ret":
            strings = {p + ":1" for r in list(before) + list(spec.snapshot(again[1])) for p in spec.all_p(r)}
            uris = {u + "1" for r in list(before) + list(spec.snapshot(again[1])) for u in spec.all_u(r)}
            for q in sorted(strings):
                if call(c_in.expand, q) != call(again[1].expand, q):
                    violation(["C09"], "chain-of-one-answers", "chain-of-one-answers-differently-from-its-input", query=q,
                              input_records=[spec.rec_dict(r) for r in spec.snapshot(c_in)], input_records_before_first_chain=[spec.rec_dict(r) for r in before],
                              input_answer=call(c_in.expand, q), chained_answer=call(again[1].expand, q))
                    break
            for q in sorted(uris):
                if call(c_in.compress, q) != call(again[1].compress, q):
                    violation(["C09"], "chain-of-one-answers", "chain-of-one-answers-differently-from-its-input", query=q,
                              input_records=[spec.rec_dict(r) for r in spec.snapshot(c_in)], input_records_before_first_chain=[spec.rec_dict(r) for r in before],
                              input_answer=call(c_in.compress, q), chained_answer=call(again[1].compress, q))
                    break
        else:
            violation(["C09"], "chain-of-one-answers", "chain-of-one-raises", observed=again[1], input_records=[spec.rec_dict(r) for r in before])
    if o[0] == "raise":
        probe.note_key(key, bool(kinds))
        return
    res = o[1]
    rrecs = list(spec.snapshot(res))
    # query the chained converter (always-on monitors compare with the model built from its records)
    for r in rrecs:
        for p in spec.all_p(r)[:3]:
            call(res.expand, p + ":1")
        for u in spec.all_u(r)[:3]:
            call(res.compress, u + "1")
    # subconverter
    allp = [p for r in rrecs for p in spec.all_p(r)]
    canon = [r.prefix for r in rrecs]
    syns = [p for r in rrecs for p in r.psyn]
    style = rng.choice(["canon", "syn", "unknown", "empty", "mixed"])
    if style == "canon":
        P = set(rng.sample(canon, k=rng.randint(1, len(canon))))
    elif style == "syn" and syns:
        P = set(rng.sample(syns, k=rng.randint(1, len(syns))))
    elif style == "unknown":
        P = {"zz", "ZZ"}
    elif style == "empty":
        P = set()
    else:
        P = set(rng.sample(allp + ["zz"], k=rng.randint(1, min(3, len(allp) + 1))))
    # P handed over in every spelling a caller may use: set, list, one-shot iterable, dict keys, a column of a data
    # frame (the use the method's documentation describes), an array
    carrier = rng.choice(["set", "list", "generator", "dict-keys", "series", "series-with-string-index", "array", "tuple", "bare-string"])
    if carrier == "bare-string":
        # a bare string is an iterable of its characters: P is the set of one-letter prefixes it spells
        word = "".join(rng.sample(["a", "A", "b", "B", "c", "C", "s"], k=rng.randint(1, 3)))
        P = set(word)
    S.counters[f"wl:prefixes-handed-over-as:{carrier}"] += 1
    ordered_p = sorted(P)
    if carrier == "set":
        arg = set(P)
    elif carrier == "list":
        arg = list(P)
    elif carrier == "generator":
        arg = (x for x in ordered_p)
    elif carrier == "dict-keys":
        arg = dict.fromkeys(ordered_p).keys()
    elif carrier == "series":
        arg = ctx.pd.Series(ordered_p, dtype=object)
    elif carrier == "series-with-string-index":
        arg = ctx.pd.Series(ordered_p, index=[f"r{i}" for i in range(len(ordered_p))], dtype=object)
    elif carrier == "bare-string":
        arg = word
    elif carrier == "array":
        arg = ctx.np.array(ordered_p, dtype=object)
    else:
        arg = tuple(ordered_p)
    so = call(res.get_subconverter, arg)
    call(res.get_subconverter, list(P))  # and once more on the same parent
    probe.note_key(key + f":sub-{style}", bool(kinds) or style != "canon")
    if so[0] == "ret" and g % 3 == 0:
        # the restriction was handed out; afterwards the parent registers a new record, and the subconverter another:
        # neither may show in the other ("exactly those records having a prefix in P", whenever it is looked at)
        sub = so[1]
        call(res.add_prefix, "zzlate", "http://zz.late/")
        call(sub.add_prefix, "zzsubown", "http://zz.subown/")
        probe.evaluated("sub-answers")
        for conv_, p_, u_, who in ((sub, "zzlate", "http://zz.late/", "subconverter-knows-a-record-registered-on-the-parent-later"),
                                   (res, "zzsubown", "http://zz.subown/", "parent-knows-a-record-registered-on-the-subconverter-later")):
            a, b = call(conv_.expand, p_ + ":1"), call(conv_.compress, u_ + "1")  # (compress: judged by the always-on monitor)
            snap_ = spec.snapshot(conv_)
            if a != ("ret", None) or p_ in {x for r in snap_ for x in spec.all_p(r)} or u_ in {x for r in snap_ for x in spec.all_u(r)}:
                violation(["C09"], "sub-answers", who, parent=[spec.rec_dict(r) for r in rrecs], prefixes=sorted(P), expand=a, compress=b,
                          same_object=sub is res)
        rrecs = [r for r in spec.snapshot(res)]
        P = set(P)
    if so[0] == "ret":
        sub = so[1]
        psp = spec.SpecConverter(rrecs, ":")
        kept = {r.prefix for r in rrecs if P & set(spec.all_p(r))}
        w = {"parent": [spec.rec_dict(r) for r in rrecs], "prefixes": sorted(P)}
        for r in rrecs:
            for p in spec.all_p(r):
                probe.evaluated("sub-answers")
                a, b = call(sub.expand, p + ":1"), call(res.expand, p + ":1")
                if r.prefix in kept and a != b:
                    violation(["C09"], "sub-answers", "subconverter-answers-differently-on-kept-record", curie=p + ":1", sub=a, parent=b, **w)
                if r.prefix not in kept and a != ("ret", None):
                    violation(["C09"], "sub-answers", "subconverter-answers-on-dropped-record", curie=p + ":1", sub=a, **w)
            for u in spec.all_u(r):
                probe.evaluated("sub-answers")
                a, b = call(sub.compress, u + "1"), call(res.compress, u + "1")
                owner = psp.uri_owner(u + "1")[1]
                if owner.prefix in kept and a != b:
                    violation(["C09"], "sub-answers", "subconverter-compresses-kept-uri-differently", uri=u + "1", sub=a, parent=b, **w)
                if a[0] == "ret" and a[1] is not None and a[1].split(":")[0] not in kept:
                    violation(["C09"], "sub-answers", "subconverter-names-dropped-record", uri=u + "1", sub=a, **w)
    if g % 181 == 0:
        probe.sample({"inputs": [[spec.rec_dict(r) for r in c] for c in ordered], "case_sensitive": cs,
                      "chained": [spec.rec_dict(r) for r in rrecs], "subconverter_prefixes": sorted(P),
                      "subconverter": [spec.rec_dict(r) for r in spec.snapshot(so[1])] if so[0] == "ret" else str(so[1])})

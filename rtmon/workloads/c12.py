"""C12 URI-prefix remapping and rewiring re-point records without losing information."""

from __future__ import annotations

from .. import gen, probe, spec
from .common import call

PROP = "C12"
LEVEL = "exploration"
CASES = {"quick": 3000, "thorough": 1500000}
SHARDS = {"quick": 8, "thorough": 16}
ANCHORS = [
    "reconciliation.py:remap_uri_prefixes", "reconciliation.py:rewire",
    "reconciliation.py:_get_curie_preferred_or_synonym", "reconciliation.py:_get_uri_preferred_or_synonym",
]
DECIDING = ["uri-remap:remap_uri_prefixes", "uri-remap:rewire"]
RULE = (
    "bounded world: every injective mapping with at most 2 (quick) / 3 (thorough) pairs over the URI prefixes (resp. CURIE "
    "prefixes) of a fixed two-record converter, unknown keys and used / own / foreign / new values, through "
    "remap_uri_prefixes and rewire (coverage.small_world_exhaustive). Random part: "
    "case = strict converter of 1-3 records with CURIE and URI synonyms over tiny alphabets, and an injective mapping of "
    "1-3 pairs: for remap_uri_prefixes keys among canonical URI prefixes / URI synonyms / unknown strings; for rewire keys "
    "among canonical CURIE prefixes / CURIE synonyms / unknown; values among unused strings, the record's own synonym, its "
    "own canonical URI prefix, URI prefixes owned by another record. Postconditions per record (matched by canonical CURIE "
    "prefix): identical CURIE side and pattern; every old URI prefix kept; at most the mapped new one gained; it is "
    "canonical exactly when unused elsewhere or already this record's; a new URI prefix owned by another record is a "
    "no-op; TransitiveError <=> keys and values intersect (remap_uri_prefixes); unmapped records identical; rewire twice == "
    "rewire once (re-applied by the monitor on an independent copy). key = per pair (key class -> value class) x "
    "operation x outcome; non-trivial = a key is a synonym, or a value is already owned (own synonym / own canonical / "
    "other record), or keys and values intersect."
    ' The at-scale case includes a record with 31-300 URI-prefix synonyms remapped / rewired onto one of its own synonyms (round 21).'
)
ASSUMPTIONS = ["only injective mappings are in the property's domain; others are counted out of domain"]

PA = ["a", "b", "c", "d", "e", "A", ""]  # ("" is the default namespace: a prefix like any other, and falsy - seed C12-T)
UA = ["u1/", "u2/", "u3/", "u4/", "u5/", "u6/", "u7/", "U1/", "http://t/n/", "https://t/n/", "http://example.org/b/"]


# ---- bounded-exhaustive small world: every injective mapping with <= 3 pairs over small name sets -------------------
import itertools

SMALL_RECS = [spec.Rec("a", "u1/", ("s",), ("u2/", "u3/"), None), spec.Rec("b", "v1/", ("t",), ("v2/",), "^x$")]
SMALL_UKEYS = ["u1/", "u2/", "u3/", "v1/", "v2/", "x/"]
SMALL_PKEYS = ["a", "s", "b", "t", "zz"]
SMALL_VALS = ["u1/", "u2/", "v1/", "v2/", "n1/", "n2/", "x/"]


def small_mappings(keys, kmax):
    out = []
    for k in range(1, kmax + 1):
        for ks in itertools.combinations(keys, k):
            for vs in itertools.permutations(SMALL_VALS, k):  # injective
                out.append(dict(zip(ks, vs)))
    return out


SMALL_CHUNK = 400
_SMALL = {}


def _world(tier):
    if tier not in _SMALL:
        kmax = 3 if tier == "thorough" else 2
        _SMALL[tier] = [("remap_uri_prefixes", m) for m in small_mappings(SMALL_UKEYS, kmax)] + [("rewire", m) for m in small_mappings(SMALL_PKEYS, kmax)]
    return _SMALL[tier]


def small_world_case(ctx, g):
    import curies

    api, S = ctx.api, probe.S
    for op, m in _world(ctx.tier)[g * SMALL_CHUNK:(g + 1) * SMALL_CHUNK]:
        c = api.Converter([gen.mk_record(api, r) for r in SMALL_RECS])
        call(getattr(curies, op), c, dict(m))
        S.counters["wl:small-world-mappings"] += 1
    probe.note_key(f"small-world:chunk{g}", True)


def EXHAUSTIVE(tier, counters):
    n = counters.get("wl:small-world-mappings", 0)
    total = len(_world(tier))
    return {
        "small_world_exhaustive": n == total,
        "explanation": f"{n} of {total} injective mappings enumerated (<= {3 if tier == 'thorough' else 2} pairs; keys over every URI prefix / CURIE prefix of a fixed two-record converter plus unknown ones, values over used, own, foreign and new URI prefixes); random cases beyond that are sampling",
    }


def at_scale_case(ctx, g, rng):
    import curies

    api, S = ctx.api, probe.S
    n = rng.choice([150, 400]) if ctx.tier == "thorough" else 90
    recs = gen.large_records(rng, n)
    # one record lists dozens or hundreds of URI-prefix synonyms (every provider of a registry entry) in the order its
    # author wrote them; remapping its canonical URI prefix, and rewiring its prefix, onto one of its own synonyms makes
    # that synonym canonical (seed C12-W: above a number of synonyms the membership test bisects an unsorted list)
    k = rng.choice([31, 32, 33, 40, 64, 120, 300])
    provs = [f"http://prov.org/{i}/" for i in range(k)]
    if rng.random() < 0.5:
        rng.shuffle(provs)
    recs.append(spec.Rec("mm", "http://mm.org/", ("MM",), tuple(provs), None))
    S.counters[f"wl:at-scale:many-uri-synonyms:k{k}"] += 1
    with probe.monitor_mode():
        c = api.Converter([gen.mk_record(api, r) for r in recs])
    some = rng.sample(recs[:-1], k=30)
    m1, m2 = {"http://mm.org/": rng.choice(provs)}, {rng.choice(["mm", "MM"]): rng.choice(provs)}
    if rng.random() < 0.3:
        m1 = {rng.choice(provs): rng.choice(provs)}  # from one of its synonyms to another
    for i, r in enumerate(some):
        if i % 4 == 0:
            m1[r.uri_prefix] = f"http://moved/{i}/"
            m2[r.prefix] = f"http://rewired/{i}/"
        elif i % 4 == 1 and r.usyn:
            m1[r.usyn[0]] = f"http://moved/{i}/"  # key is a synonym
            m2[r.prefix] = r.usyn[0]  # onto its own synonym: becomes canonical
        elif i % 4 == 2:
            m1[f"http://unknown/{i}/"] = f"http://x/{i}/"
            m2[f"unknown{i}"] = f"http://x/{i}/"
        else:
            m2[r.psyn[0] if r.psyn else r.prefix] = f"http://viasyn/{i}/"
    call(curies.remap_uri_prefixes, c, m1)
    call(curies.rewire, c, m2)
    S.counters[f"wl:at-scale:n{n}"] += 1
    probe.note_key(f"at-scale:n{n}", True)


def run_case(ctx, g, rng):
    if g % (199 if ctx.tier == "quick" else 1601) == 198:
        return at_scale_case(ctx, g, rng)
    import curies

    api, S = ctx.api, probe.S
    if g * SMALL_CHUNK < len(_world(ctx.tier)):
        small_world_case(ctx, g)
    d = rng.choice([":", ":", ":", "/", "::", "_"])
    pa = PA + (["obo:go", "x:"] if d != ":" else ["a.b", "a/b"])
    ua = UA
    if rng.random() < 0.2:
        pa = pa + [x for x in gen.hostile(rng, 2, exclude=(d,)) if x not in pa]
        ua = UA + [x for x in gen.hostile(rng, 3, uri=True) if x not in UA]
        S.counters["wl:pools-seasoned"] += 1
    ps, us = rng.sample(pa, k=len(pa)), rng.sample(ua, k=len(ua))
    ps = [p for p in ps if d not in p]
    n = rng.randint(1, 3)
    recs = []
    for i in range(n):
        p, u = ps.pop(), us.pop()
        psy = tuple(ps.pop() for _ in range(rng.randint(0, 1)) if len(ps) > n)
        usy = tuple(us.pop() for _ in range(rng.randint(0, 2)) if len(us) > n)
        recs.append(spec.Rec(p, u, psy, usy, rng.choice([None, None, "^x$"])))
    allu = [u for r in recs for u in spec.all_u(r)]
    allp = [p for r in recs for p in spec.all_p(r)]
    owner_u = {u: r.prefix for r in recs for u in spec.all_u(r)}
    owner_p = {p: r.prefix for r in recs for p in spec.all_p(r)}
    mode = "remap_uri_prefixes" if g % 2 == 0 else "rewire"
    k = rng.randint(1, 3)
    if mode == "remap_uri_prefixes":
        keys = rng.sample(allu + ["x1/", "x2/"], k=min(k, len(allu) + 2))
    else:
        keys = rng.sample(allp + ["zz"], k=min(k, len(allp) + 1))
    if rng.random() < 0.3 and keys:
        # an unknown key that a lenient reader would take for a known one (another letter case, a blank at the edge, the
        # other of http / https): unknown all the same - "rewiring an unknown prefix adds nothing"
        src = rng.choice(allp if mode == "rewire" else allu)
        tw = [x for x in gen.twins(src, uri=mode != "rewire") if x not in (allp if mode == "rewire" else allu)]
        if tw:
            keys[rng.randrange(len(keys))] = rng.choice(tw)
            keys = list(dict.fromkeys(keys))
            S.counters["wl:unknown-keys-that-are-twins-of-known-ones"] += 1
    vals = rng.sample(allu + ["y1/", "y2/", "x1/"], k=len(keys))
    if rng.random() < 0.3 and vals:
        # an unused new URI prefix that extends a registered one, or is a proper head of one, or is empty: unused is
        # unused - "becomes canonical exactly when it is unused elsewhere" (seed C12-Q: ownership by longest-prefix match)
        base = rng.choice(allu)
        cand = rng.choice([base + "GO_", base + "x", base[:-1], base[: len(base) // 2], ""])
        if cand not in vals:
            vals[rng.randrange(len(vals))] = cand
            S.counters["wl:new-uri-prefixes-nested-with-registered-ones"] += 1
    if rng.random() < 0.25 and vals:
        # an unused new URI prefix that a lenient reader would take for a registered one (letter case of scheme / host or
        # of the whole string, the other scheme, a blank): unused is unused (seed C12-R: ownership decided after RFC 3986
        # case normalisation)
        tw = [x for x in gen.twins(rng.choice(allu), uri=True) if x not in allu and x not in vals]
        if tw:
            vals[rng.randrange(len(vals))] = rng.choice(tw)
            S.counters["wl:new-uri-prefixes-that-are-twins-of-registered-ones"] += 1
    m = dict(zip(keys, vals))
    # the converter may have a past (registered record by record, grown through merges) and any delimiter
    c, how = gen.build(api, recs, d, rng, share_lists=True)
    S.counters[f"wl:build:{how}"] += 1
    f = curies.remap_uri_prefixes if mode == "remap_uri_prefixes" else curies.rewire
    o = call(f, c, dict(m))
    # the same call again on the same converter object, and the other operation after it: every call is judged on its own
    call(f, c, dict(m))
    if rng.random() < 0.3 and mode == "rewire":
        call(curies.remap_uri_prefixes, c, {k: v for k, v in zip(rng.sample(allu, k=min(2, len(allu))), ["y1/", "x1/"])})

    def kcls(x):
        if mode == "rewire":
            return "U" if x not in owner_p else "C" if owner_p[x] == x else "S"
        return "U" if x not in owner_u else "C" if any(r.uri_prefix == x for r in recs) else "S"

    def vcls(kx, v):
        if v not in owner_u:
            return "new"
        ko = owner_p.get(kx) if mode == "rewire" else owner_u.get(kx)
        if ko is None:
            return "owned"
        if owner_u[v] == ko:
            return "own-canon" if any(r.uri_prefix == v for r in recs) else "own-syn"
        return "other"

    shape = sorted(f"{kcls(a)}>{vcls(a, b)}" for a, b in m.items())
    inter = bool(set(m) & set(m.values()))
    outcome = "ok" if o[0] == "ret" else type(o[1]).__name__
    nontrivial = inter or any(s[0] == "S" or not s.endswith(("new",)) for s in shape)
    probe.note_key(f"{mode}:{','.join(shape)}:i{int(inter)}:{outcome}", nontrivial)
    S.counters[f"wl:{mode}:{outcome}"] += 1
    if o[0] == "ret":
        res = o[1]
        for r in recs:
            for u in spec.all_u(r):
                call(res.compress, u + "1")
            call(res.expand, r.prefix + res.delimiter + "1")
        if g % 3 == 0:
            # reconciliation results are converters like any other: a second call on the RESULT, keyed by what the first
            # call introduced (and by what it turned into a synonym), is judged on its own against the result's records
            # (seed C12-O: records of a result that remember what they listed before the call)
            recs2 = list(spec.snapshot(res))
            if recs2:
                introduced = [v for v in m.values() if any(v in spec.all_u(r) for r in recs2)]
                r2 = rng.choice(recs2)
                S.counters["wl:second-call-on-a-result"] += 1
                if rng.random() < 0.5:
                    keys2 = (introduced or [r2.uri_prefix])[:2] + [rng.choice(spec.all_u(r2))]
                    call(curies.remap_uri_prefixes, res, {k2: f"http://second/{j}/" for j, k2 in enumerate(dict.fromkeys(keys2))})
                else:
                    owners = [r.prefix for r in recs2 if any(v in spec.all_u(r) for v in introduced)] or [r2.prefix]
                    call(curies.rewire, res, {owners[0]: "http://second/0/", rng.choice(spec.all_p(r2)): rng.choice(spec.all_u(r2))}
                         if owners[0] not in spec.all_p(r2) else {owners[0]: "http://second/0/"})
    if g % 3 == 1 and recs and d not in "zzrenamed":
        # ... and the other way round: the converter handed to remap_uri_prefixes / rewire is itself the result of a
        # CURIE-side remapping, keyed by the name that remapping introduced
        r0 = rng.choice(recs)
        o1 = call(curies.remap_curie_prefixes, c, {r0.prefix: "zzrenamed"})
        if o1[0] == "ret":
            S.counters["wl:called-on-the-result-of-a-curie-remapping"] += 1
            call(curies.rewire, o1[1], {"zzrenamed": "http://second/1/"})
            call(curies.remap_uri_prefixes, o1[1], {r0.uri_prefix: "http://second/2/"})
    if g % 499 == 0:
        probe.sample({"operation": mode, "records": [spec.rec_dict(r) for r in recs], "mapping": m,
                      "result": [spec.rec_dict(r) for r in spec.snapshot(o[1])] if o[0] == "ret" else outcome})

"""C06 Standardisation is canonical, idempotent and meaning-preserving."""

from __future__ import annotations

from .. import smallworld, gen, probe, spec
from ..probe import violation
from .common import growth_sweep, long_lived, scale_leg, call, grow_while_asking, use_as_input_of_derivations
from .c03 import make_prefix_free

PROP = "C06"
LEVEL = "exploration"
CASES = {"quick": 640, "thorough": 160000}
SHARDS = {"quick": 8, "thorough": 16}
ANCHORS = ["api.py:Converter.standardize_prefix", "api.py:Converter.standardize_curie", "api.py:Converter.standardize_uri"]
DECIDING = ["query-model:standardize_prefix", "query-model:standardize_curie", "query-model:standardize_uri", "idempotence"]
RULE = (
    "case = random clash-free record set (synonyms, case variants, empty prefix; half forced prefix-free), any delimiter, "
    "every third one registered record by record while its strings are already being standardised; "
    "inputs: every known prefix/synonym, case variants, unknown strings, CURIEs and URIs built from them. Every "
    "standardize_* return is compared with the model (canonical of the owner; only the prefix part rewritten; longest URI "
    "prefix replaced by the canonical one); relations between real answers: standardize_prefix / standardize_curie are "
    "idempotent, expand(standardize_curie(c)) == expand(c); on prefix-free maps standardize_uri is idempotent and "
    "compress(standardize_uri(u)) == compress(u). key = function x input class (canonical/synonym/case-variant/unknown/"
    "no-delimiter) x prefix-free?; non-trivial = the input is a synonym, a case variant, the empty prefix or a URI under a "
    "URI-prefix synonym."
)
ASSUMPTIONS = ["reference model rtmon.spec.SpecConverter"]


def run_case(ctx, g, rng):
    api, S = ctx.api, probe.S
    if smallworld.active(ctx, g):
        for c_, recs_, d_ in smallworld.chunk(ctx, g):
            pf_ = spec.SpecConverter(recs_, d_).prefix_free()
            for q in smallworld.queries(ctx.tier, d_):
                a_ = call(c_.standardize_prefix, q)
                b_ = call(c_.standardize_curie, q)
                u_ = call(c_.standardize_uri, q)
                probe.evaluated("idempotence")
                if a_[0] == "ret" and a_[1] is not None and call(c_.standardize_prefix, a_[1]) != a_:
                    violation(["C06"], "idempotence", "standardize_prefix-not-idempotent", prefix=q, first=a_, records=[spec.rec_dict(r) for r in recs_], delimiter=d_)
                if b_[0] == "ret" and b_[1] is not None:
                    if call(c_.standardize_curie, b_[1]) != b_:
                        violation(["C06"], "idempotence", "standardize_curie-not-idempotent", curie=q, first=b_, records=[spec.rec_dict(r) for r in recs_], delimiter=d_)
                    if call(c_.expand, b_[1]) != call(c_.expand, q):
                        violation(["C06"], "idempotence", "standardize_curie-changes-meaning", curie=q, standardized=b_, records=[spec.rec_dict(r) for r in recs_], delimiter=d_)
                if pf_ and u_[0] == "ret" and u_[1] is not None:
                    if call(c_.standardize_uri, u_[1]) != u_:
                        violation(["C06"], "idempotence", "standardize_uri-not-idempotent-on-prefix-free-map", uri=q, first=u_, records=[spec.rec_dict(r) for r in recs_], delimiter=d_)
                    if call(c_.compress, u_[1]) != call(c_.compress, q):
                        violation(["C06"], "idempotence", "standardize_uri-changes-meaning-on-prefix-free-map", uri=q, standardized=u_, records=[spec.rec_dict(r) for r in recs_], delimiter=d_)
        probe.note_key(f"curie-small-world:chunk{g % 40}", True)
    scale_leg(ctx, rng, rng.choice([":", ":", "/", "::"]), modes=False, g=g)
    growth_sweep(ctx, rng, rng.choice([":", ":", "/"]), g)
    long_lived(ctx, rng, rng.choice([":", "/"]), g)
    d = rng.choice(gen.DELIMS)
    recs = gen.records(rng, d, 0, 5)
    if g % 2 == 0:
        recs = make_prefix_free(recs) or recs
    if g % 3 == 1:
        strings = [p for r in recs for p in spec.all_p(r)] + [p + d + "1" for r in recs for p in spec.all_p(r)] + [u + "1" for r in recs for u in spec.all_u(r)]

        def ask(cc, s):
            call(cc.standardize_prefix, s)
            call(cc.standardize_curie, s)
            call(cc.standardize_uri, s)

        c, how = grow_while_asking(api, recs, d, rng, ask, strings), "asked-while-growing"
    else:
        c, how = gen.build(api, recs, d, rng)
    sp = spec.SpecConverter(recs, d)
    pf = sp.prefix_free()
    w = {"records": [spec.rec_dict(r) for r in recs], "delimiter": d, "prefix_free": pf}
    known = [p for r in recs for p in spec.all_p(r)]
    prefixes = known + [p.swapcase() for p in known] + ["nope", "", rng.choice(gen.UNICODE), *gen.SPECIAL_PREFIXES]
    for p in dict.fromkeys(prefixes):
        o = sp.prefix_owner(p)
        cls = "unknown" if o is None else "canonical" if o.prefix == p else "synonym"
        if p == "":
            cls += "-empty"
        a = call(c.standardize_prefix, p)
        if a[0] == "ret" and a[1] is not None:
            probe.evaluated("idempotence")
            if call(c.standardize_prefix, a[1]) != a:
                violation(["C06"], "idempotence", "standardize_prefix-not-idempotent", prefix=p, first=a, **w)
        probe.note_key(f"prefix:{cls}:{'colon' if d == ':' else 'other'}:{how == 'asked-while-growing'}", cls != "unknown" and cls != "canonical")
        for i in rng.sample(gen.IDS, k=3) + [d]:
            curie = p + d + i
            s1 = call(c.standardize_curie, curie)
            e0 = call(c.expand, curie)
            if s1[0] == "ret" and s1[1] is not None:
                probe.evaluated("idempotence")
                s2 = call(c.standardize_curie, s1[1])
                e1 = call(c.expand, s1[1])
                if curie.find(d) == len(p):
                    if s2 != s1:
                        violation(["C06"], "idempotence", "standardize_curie-not-idempotent", curie=curie, first=s1, second=s2, **w)
                    if probe.okey(e1) != probe.okey(e0):
                        violation(["C06"], "idempotence", "standardize_curie-changes-meaning", curie=curie, standard=s1, expand_before=e0, expand_after=e1, **w)
            probe.note_key(f"curie:{cls}:{'delim' if d in i else 'empty' if i == '' else 'id'}:{'colon' if d == ':' else 'other'}:pf{int(pf)}", cls not in ("unknown", "canonical"))
            S.counters["wl:curies"] += 1
    for r in recs:
        for u0 in spec.all_u(r):
            for i in rng.sample(gen.IDS, k=3) + [""]:
                u = u0 + i
                s1 = call(c.standardize_uri, u)
                if pf and s1[0] == "ret" and s1[1] is not None:
                    probe.evaluated("idempotence")
                    s2 = call(c.standardize_uri, s1[1])
                    if s2 != s1:
                        violation(["C06"], "idempotence", "standardize_uri-not-idempotent-on-prefix-free-map", uri=u, first=s1, second=s2, **w)
                    if probe.okey(call(c.compress, s1[1])) != probe.okey(call(c.compress, u)):
                        violation(["C06"], "idempotence", "standardize_uri-changes-compression-on-prefix-free-map", uri=u, standard=s1, **w)
                nested = len(sp.uri_matches(u)) > 1
                probe.note_key(f"uri:{'syn' if u0 != r.uri_prefix else 'canon'}:pf{int(pf)}:nested{int(nested)}:{'empty' if i == '' else 'id'}:{how == 'asked-while-growing'}", u0 != r.uri_prefix or nested)
                S.counters["wl:uris"] += 1
    for u in ("", "zzz", "http://nope/1", *(x + "1" for x in gen.SPECIAL_URIS)):
        call(c.standardize_uri, u)
    if g % 4 == 3:
        for x in use_as_input_of_derivations(api, c, rng):
            call(c.standardize_prefix, x)
            call(c.standardize_curie, x + d + "1")
            call(c.standardize_uri, x)
    if g % 151 == 0 and known:
        p = known[-1]
        probe.sample({**w, "built": how, "prefix": p, "standardize_prefix": call(c.standardize_prefix, p),
                      "standardize_curie": call(c.standardize_curie, p + d + "1")})


def EXHAUSTIVE(tier, counters):
    return smallworld.exhaustive(tier, counters)

"""C15 References parse, print, compare and hash consistently."""

from __future__ import annotations

import itertools

from .. import gen, probe, spec
from ..probe import evaluated, violation
from .common import call

PROP = "C15"
LEVEL = "exploration"
CASES = {"quick": 500, "thorough": 200000}
SHARDS = {"quick": 8, "thorough": 16}
ANCHORS = [
    "api.py:_split", "api.py:ReferenceTuple.from_curie", "api.py:ReferenceTuple.curie", "api.py:Reference._parse_from_string",
    "api.py:Reference.__lt__", "api.py:Reference.__hash__", "api.py:Reference.__eq__", "api.py:Reference.from_curie",
    "api.py:Reference.from_reference", "api.py:NamableReference.from_curie", "api.py:NamedReference.from_curie",
    "api.py:Prefix._validate", "api.py:_converter_from_validation_info", "triples.py:write_triples", "triples.py:read_triples",
]
DECIDING = ["ref:print-parse", "ref:eq-hash-order", "ref:immutable", "ref:converter-context", "ref:triples-file"]
RULE = (
    "case = a pool of 6 references drawn from the four classes (ReferenceTuple, Reference, NamableReference, "
    "NamedReference) over hostile values: prefixes without ':' (empty, Unicode, blanks, dots), identifiers that are "
    "empty, contain ':', tabs, quotes, newlines, carriage returns, leading / trailing blanks, names incl. None and ''. "
    "Laws checked on the real objects: prints as prefix:identifier; from_curie (default and custom separator), string "
    "validation, JSON dump / validate and ReferenceTuple give back an equal object split at the first separator; "
    "separator-free strings are rejected with a ValueError; over all ordered pairs and triples of the pool: == iff equal "
    "(prefix, identifier), equal => equal hash, the name never matters, '<' is the tuple order (irreflexive, asymmetric, "
    "transitive, total on distinct pairs, sorted() agrees), also for references derived from already used ones by "
    "model_copy (plain, deep, with updated prefix or identifier), copy.copy and pickle; attribute assignment raises; with a generated converter as "
    "validation context (three ways of passing it) the prefix is standardised exactly as the model predicts and unknown "
    "prefixes raise a ValidationError; triples written with write_triples (plain and .gz) read back equal. key = class "
    "mix x identifier features x law; non-trivial = an identifier contains the separator or a control / blank character, "
    "the pool holds equal pairs of different classes or names, or the converter resolves through a synonym / empty prefix."
)
ASSUMPTIONS = ["Python tuple comparison is 'lexicographic order on the pair'", "pydantic's ValidationError is the validation error meant by the property"]

# (prefixes and identifiers that together look wrapped - "[x" + "y]" prints as the W3C "safe CURIE" [x:y], "<x" + "y>"
#  as an IRI reference, quotes, parentheses: characters like any other, seed C15-P)
PFX = ["a", "A", "", "é", "a.b", "x y", "GO", "go", " p", "ab", "#hashtag", "#", "e\u0301", "\ufeffa", "[x", "[", "[[a", "<x", "(x", '"x', "'x", "{x"]
IDS = ["", "1", "a:b", ":", "é", "a\tb", 'q"z', "a\nb", "a\rb", " s ", "0001", "a\r\nb", "::", "x:", '"', "\\", "1 ",
       "line 1\n# line 2", "#x", "e\u0301", "a%20b", "y]", "]", "b:c]]", "y>", "y)", 'y"', "y'", "y}"]
NAMES = [None, "n", "m", "", "é\n"]


def build(api, cls, p, i, n):
    if cls == "tuple":
        return api.ReferenceTuple(p, i)
    if cls == "ref":
        return api.Reference(prefix=p, identifier=i)
    if cls == "namable":
        return api.NamableReference(prefix=p, identifier=i, name=n)
    return api.NamedReference(prefix=p, identifier=i, name=n or "")


def ifeat(i):
    f = ""
    if ":" in i:
        f += "s"
    if any(c in i for c in "\t\n\r"):
        f += "c"
    if i != i.strip() or i == "":
        f += "b"
    if '"' in i or "\\" in i:
        f += "q"
    return f or "-"


def at_scale_case(ctx, g, rng):
    """a triples file far above any plausible batch size; long identifiers and prefixes"""
    from curies.triples import Triple, read_triples, write_triples

    api, S = ctx.api, probe.S
    n = rng.choice([1500, 6000]) if ctx.tier == "thorough" else 1100
    long_id = "x" * rng.choice([300, 5000]) + ":y"
    refs = [api.Reference(prefix=rng.choice(PFX), identifier=rng.choice(IDS + [long_id, str(i)])) for i in range(60)]
    # ... and long prefixes (a URI-like or generated namespace name of a hundred or a thousand characters is a prefix
    # like any other as long as it does not contain the separator - seed C15-W: only the head of the string searched)
    long_refs = [api.Reference(prefix=rng.choice("pé[") + "q" * (k - 1), identifier=rng.choice(IDS + [long_id])) for k in (63, 64, 65, 127, 128, 129, 255, 256, 257, 1000, 5000)]
    refs += long_refs
    triples = [Triple(subject=rng.choice(refs), predicate=rng.choice(refs), object=rng.choice(refs)) for _ in range(n)]
    want = [(t.subject.pair, t.predicate.pair, t.object.pair) for t in triples]
    for name in ("big.tsv", "big.tsv.gz"):
        evaluated("ref:triples-file")
        path = ctx.tmp / name
        wo = call(write_triples, triples if rng.random() < 0.5 else iter(triples), path)
        back = call(read_triples, path) if wo[0] == "ret" else wo
        got = [(t.subject.pair, t.predicate.pair, t.object.pair) for t in back[1]] if back[0] == "ret" else back
        if got != want:
            bad = next((i for i, (a, b) in enumerate(zip(got, want)) if a != b), min(len(got), len(want))) if isinstance(got, list) else None
            violation(["C15"], "ref:triples-file", "triples-file-round-trip-differs", file=name, triples_written=len(want),
                      triples_read=len(got) if isinstance(got, list) else got, first_difference_at=bad,
                      written=want[bad] if bad is not None and bad < len(want) else None,
                      read_back=got[bad] if isinstance(got, list) and bad is not None and bad < len(got) else None)
    # a file of tens of megabytes in which every record spans several physical lines (identifiers with line breaks):
    # wherever a reader cuts the file into blocks, a record lies across the cut
    big = "x" * 50000
    ids = [f"{i}\n{big}\n{i}" for i in range(4)] + [f"{big}\r\n{i}" for i in range(2)]
    brefs = [api.Reference(prefix="a", identifier=i) for i in ids]
    k = 170 if ctx.tier == "thorough" else 130
    btriples = [Triple(subject=brefs[i % 6], predicate=brefs[(i + 1) % 6], object=brefs[(i + 2) % 6]) for i in range(k)]
    bwant = [(t.subject.pair, t.predicate.pair, t.object.pair) for t in btriples]
    evaluated("ref:triples-file")
    bpath = ctx.tmp / "huge.tsv"
    wo = call(write_triples, btriples, bpath)
    back = call(read_triples, bpath) if wo[0] == "ret" else wo
    bgot = [(t.subject.pair, t.predicate.pair, t.object.pair) for t in back[1]] if back[0] == "ret" else back
    if bgot != bwant:
        violation(["C15"], "ref:triples-file", "triples-file-round-trip-differs", file="huge.tsv", size=bpath.stat().st_size if bpath.exists() else None,
                  triples_written=len(bwant), triples_read=len(bgot) if isinstance(bgot, list) else bgot)
    bpath.unlink(missing_ok=True)
    # the parse / print laws on long values
    for r in rng.sample(refs, k=10) + long_refs:
        evaluated("ref:print-parse")
        if r.curie != f"{r.prefix}:{r.identifier}" or call(api.Reference.from_curie, r.curie) != ("ret", r) or hash(r) != hash(api.NamableReference(prefix=r.prefix, identifier=r.identifier, name="n")):
            violation(["C15"], "ref:print-parse", "does-not-print-as-prefix-colon-identifier", prefix=r.prefix, identifier=r.identifier[:50], curie=r.curie[:80])
    S.counters[f"wl:at-scale:n{n}"] += 1
    probe.note_key(f"at-scale:n{n}", True)


def run_case(ctx, g, rng):
    if g % 131 == 131 - 1:
        return at_scale_case(ctx, g, rng)
    import pydantic
    from curies.triples import Triple, read_triples, write_triples

    api, S = ctx.api, probe.S
    pool = []
    keyp, keyi = rng.sample(PFX, k=3), rng.sample(IDS, k=4)
    for _ in range(6):
        cls = rng.choice(["ref", "namable", "named", "tuple", "ref", "namable"])
        p, i, n = rng.choice(keyp), rng.choice(keyi), rng.choice(NAMES)
        o = build(api, cls, p, i, n)
        pool.append((o, (p, i), cls, n))
        w = {"class": cls, "prefix": p, "identifier": i, "name": n}
        evaluated("ref:print-parse")
        if o.curie != f"{p}:{i}":
            violation(["C15"], "ref:print-parse", "does-not-print-as-prefix-colon-identifier", curie=o.curie, **w)
        t = call(api.ReferenceTuple.from_curie, o.curie)
        if t != ("ret", (p, i)):
            violation(["C15"], "ref:print-parse", "tuple-from_curie-not-inverse-of-curie", got=t, **w)
        sep = rng.choice(["/", "::", "|", "_"])
        if sep not in p:
            t2 = call(api.ReferenceTuple.from_curie, p + sep + i, sep=sep)
            if t2 != ("ret", (p, i)):
                violation(["C15"], "ref:print-parse", "custom-separator-not-split-at-first-occurrence", separator=sep, got=t2, **w)
            for rcls, extra in ((api.Reference, ()), (api.NamableReference, ("nm",)), (api.NamedReference, ("nm",))):
                r2 = call(rcls.from_curie, p + sep + i, *extra, sep=sep)
                if r2[0] != "ret" or (r2[1].prefix, r2[1].identifier) != (p, i) or (extra and r2[1].name != "nm"):
                    violation(["C15"], "ref:print-parse", "custom-separator-not-split-at-first-occurrence", separator=sep, got=r2, reference_class=rcls.__name__, **w)
        if cls != "tuple":
            C = type(o)
            kw = {} if cls == "ref" else {"name": n or ""} if cls == "named" else {"name": n}
            b = call(C.from_curie, o.curie, **kw)
            if b[0] != "ret" or b[1] != o or (b[1].prefix, b[1].identifier) != (p, i) or type(b[1]) is not C:
                violation(["C15"], "ref:print-parse", "from_curie-not-inverse-of-curie", got=b, **w)
            sv = call(api.Reference.model_validate, o.curie)
            if sv[0] != "ret" or sv[1] != o or (sv[1].prefix, sv[1].identifier) != (p, i):
                violation(["C15"], "ref:print-parse", "string-validation-not-inverse-of-curie", got=sv, **w)
            j = call(C.model_validate_json, o.model_dump_json())
            if j[0] != "ret" or j[1] != o or getattr(j[1], "name", None) != getattr(o, "name", None) or (j[1].prefix, j[1].identifier) != (p, i):
                violation(["C15"], "ref:print-parse", "json-round-trip-differs", got=j, **w)
            if o.pair != (p, i) or type(o.pair) is not api.ReferenceTuple:
                violation(["C15"], "ref:print-parse", "pair-differs", got=o.pair, **w)
            fr = call(api.Reference.from_reference, o)
            if fr[0] != "ret" or fr[1] != o:
                violation(["C15"], "ref:print-parse", "from_reference-differs", got=fr, **w)
            evaluated("ref:immutable")
            # "instances are immutable": every field, the name of the namable classes included (seed C15-T), by
            # assignment and by deletion
            name_before = getattr(o, "name", None)
            for attr in ("prefix", "identifier") + (("name",) if hasattr(o, "name") else ()):
                try:
                    setattr(o, attr, "zz")
                    violation(["C15"], "ref:immutable", "attribute-assignment-accepted", attribute=attr, **w)
                except (pydantic.ValidationError, AttributeError, TypeError):
                    pass
                try:
                    delattr(o, attr)
                    violation(["C15"], "ref:immutable", "attribute-deletion-accepted", attribute=attr, **w)
                except (pydantic.ValidationError, AttributeError, TypeError):
                    pass
            if (getattr(o, "prefix", None), getattr(o, "identifier", None), getattr(o, "name", None)) != (p, i, name_before):
                violation(["C15"], "ref:immutable", "object-changed-by-assignment", **w)
        probe.note_key(f"print-parse:{cls}:{ifeat(i)}:{'e' if p == '' else 'p'}", ifeat(i) != "-" or p == "")
    for bad in ("nodelim", "", rng.choice(["é", " ", "a b"])):
        evaluated("ref:print-parse")
        for name, f in (("Reference.from_curie", api.Reference.from_curie), ("ReferenceTuple.from_curie", api.ReferenceTuple.from_curie),
                        ("Reference.model_validate", api.Reference.model_validate), ("NamableReference.from_curie", api.NamableReference.from_curie)):
            o = call(f, bad)
            if not (o[0] == "raise" and isinstance(o[1], ValueError)):
                violation(["C15"], "ref:print-parse", "separator-free-string-accepted", function=name, string=bad, got=o)
    # algebra over all pairs / triples of the three pydantic classes
    objs = [(o, k, c, n) for o, k, c, n in pool if c != "tuple"]
    mixed = False
    for (x, kx, cx, nx), (y, ky, cy, ny) in itertools.product(objs, repeat=2):
        evaluated("ref:eq-hash-order")
        w = {"x": repr(x), "y": repr(y)}
        if (x == y) != (kx == ky):
            violation(["C15"], "ref:eq-hash-order", "equality-not-determined-by-prefix-and-identifier", **w)
        if kx == ky and hash(x) != hash(y):
            violation(["C15"], "ref:eq-hash-order", "equal-references-hash-differently", **w)
        if (x < y) != (kx < ky):
            violation(["C15"], "ref:eq-hash-order", "less-than-is-not-tuple-order", **w)
        if kx == ky and (cx != cy or nx != ny) and x is not y:
            mixed = True
    for (x, kx, *_), (y, ky, *_), (z, kz, *_) in itertools.product(objs[:4], repeat=3):
        if x < y and y < z and not x < z:
            violation(["C15"], "ref:eq-hash-order", "order-not-transitive", x=repr(x), y=repr(y), z=repr(z))
    if objs:
        evaluated("ref:eq-hash-order")
        got = [(o.prefix, o.identifier) for o in sorted(o for o, *_ in objs)]
        if got != sorted(k for _, k, *_ in objs):
            violation(["C15"], "ref:eq-hash-order", "sorted-disagrees-with-tuple-order", got=got)
        if len({o for o, *_ in objs}) != len({k for _, k, *_ in objs}):
            violation(["C15"], "ref:eq-hash-order", "set-membership-not-by-prefix-and-identifier", pool=[repr(o) for o, *_ in objs])
    # references derived from used ones (copies, updated copies, pickles): the same laws, on objects with a past
    import copy as _copy
    import pickle as _pickle

    derived = []
    for o, k, c, n in objs:
        hash(o), o.pair, o < o, o == o  # make sure the original has been used before it is copied
        np_, ni = rng.choice(keyp), rng.choice(keyi)
        for how, f, key in (
            ("model_copy", lambda o=o: o.model_copy(), k),
            ("model_copy-deep", lambda o=o: o.model_copy(deep=True), k),
            ("update-identifier", lambda o=o, ni=ni: o.model_copy(update={"identifier": ni}), (k[0], ni)),
            ("update-prefix", lambda o=o, np_=np_: o.model_copy(update={"prefix": np_}), (np_, k[1])),
            ("copy.copy", lambda o=o: _copy.copy(o), k),
            ("pickle", lambda o=o: _pickle.loads(_pickle.dumps(o)), k),
        ):
            r = call(f)
            if r[0] == "ret":
                derived.append((r[1], key, c, how))
    for (x, kx, cx, hx), (y, ky, cy, ny) in itertools.product(derived, [(o, k, c, n) for o, k, c, n in objs] + derived[:6]):
        evaluated("ref:eq-hash-order")
        w = {"x": repr(x), "x_derived_by": hx, "y": repr(y)}
        if (x == y) != (kx == ky) or (y == x) != (kx == ky):
            violation(["C15"], "ref:eq-hash-order", "equality-not-determined-by-prefix-and-identifier", **w)
        if kx == ky and hash(x) != hash(y):
            violation(["C15"], "ref:eq-hash-order", "equal-references-hash-differently", **w)
        if (x < y) != (kx < ky) or (y < x) != (ky < kx):
            violation(["C15"], "ref:eq-hash-order", "less-than-is-not-tuple-order", **w)
        if (x.prefix, x.identifier) != kx or x.curie != f"{kx[0]}:{kx[1]}" or x.pair != kx:
            violation(["C15"], "ref:print-parse", "derived-reference-prints-wrongly", expected=list(kx), **w)
    probe.note_key(f"derived:{len(derived)}", bool(derived))
    for o, k, c, n in pool:
        if c == "tuple":
            evaluated("ref:eq-hash-order")
            if o != k or hash(o) != hash(k) or tuple(o) != k or o.to_pydantic() != api.Reference(prefix=k[0], identifier=k[1]):
                violation(["C15"], "ref:eq-hash-order", "reference-tuple-is-not-a-plain-tuple", value=repr(o))
    probe.note_key(f"algebra:mixed{int(mixed)}:n{len(objs)}", mixed)
    # converter as validation context
    # "all converters used as validation context": the converter's own CURIE delimiter is its own business - references
    # are written with ':' (or the separator given) whatever the converter uses for its CURIEs
    d = rng.choice([":", ":", "/", "::", "|", "_"])
    # (one context converter in twelve has no records at all: every prefix is unknown to it - seed C15-Q, where a
    #  converter that acquired __len__ became falsy when empty and was taken for "no converter")
    recs = gen.records(rng, d, 1, 3) if rng.random() < 0.92 else []
    if recs and rng.random() < 0.4 and not any("" in spec.all_p(r) for r in recs):
        recs[0] = recs[0]._replace(psyn=recs[0].psyn + ("",)) if rng.random() < 0.5 else recs[0]._replace(prefix="", psyn=recs[0].psyn + (recs[0].prefix,))
    conv, how = gen.build(api, recs, d, rng)
    S.counters[f"wl:context-converter-delimiter:{d}"] += 1
    sp = spec.SpecConverter(recs, d)
    for p in [x for r in recs for x in spec.all_p(r)] + ["nope", "zz"]:
        if ":" in p:
            continue  # the property's quantifier: prefixes without the separator
        want = sp.standardize_prefix(p)
        ways = [
            ("from_curie", lambda: api.Reference.from_curie(f"{p}:1", converter=conv)),
            ("model_validate-dict", lambda: api.Reference.model_validate({"prefix": p, "identifier": "1"}, context=conv)),
            ("named-from_curie", lambda: api.NamedReference.from_curie(f"{p}:1", "n", converter=conv)),
            ("model_validate-str-ctxdict", lambda: api.Reference.model_validate(f"{p}:1", context={"converter": conv})),
            ("from_reference", lambda: api.NamableReference.from_reference(api.Reference(prefix=p, identifier="1"), converter=conv)),
            # (the source may already be an instance of the target class, or of a subclass of it - seed C15-S: pydantic
            #  hands such an instance back unvalidated)
            ("from_reference-same-class", lambda: api.Reference.from_reference(api.Reference(prefix=p, identifier="1"), converter=conv)),
            ("from_reference-named-same-class", lambda: api.NamedReference.from_reference(api.NamedReference(prefix=p, identifier="1", name="n"), converter=conv)),
            ("from_reference-from-subclass", lambda: api.Reference.from_reference(api.NamableReference(prefix=p, identifier="1", name=None), converter=conv)),
        ]
        if "|" not in p:
            ways.append(("from_curie-custom-sep", lambda: api.Reference.from_curie(f"{p}|1", sep="|", converter=conv)))
            ways.append(("namable-from_curie-custom-sep", lambda: api.NamableReference.from_curie(f"{p}|1", "nm", sep="|", converter=conv)))
        for name, f in ways:
            evaluated("ref:converter-context")
            o = call(f)
            w = {"way": name, "prefix": p, "records": [spec.rec_dict(r) for r in recs], "got": o}
            if want is None:
                if not (o[0] == "raise" and isinstance(o[1], pydantic.ValidationError)):
                    violation(["C15"], "ref:converter-context", "unknown-prefix-not-rejected-with-validation-error", **w)
            elif o[0] != "ret" or o[1].prefix != want or o[1].identifier != "1":
                violation(["C15"], "ref:converter-context", "prefix-not-standardised-through-converter", expected=want, **w)
            elif ":" not in want and (o[1].curie != want + ":1" or type(o[1]).from_curie(o[1].curie, *(("n",) if type(o[1]) is api.NamedReference else ())) != o[1]):
                # (only where the standardised prefix is itself free of the separator - the property's quantifier)
                # "print as prefix:identifier and parse back to an equal object" holds for the products of a validation
                # context like for any reference (seed C15-V: the input string remembered as the printed form)
                violation(["C15"], "ref:converter-context", "standardised-reference-prints-or-parses-back-differently", expected=want + ":1", printed=o[1].curie, **w)
        ow = sp.prefix_owner(p)
        probe.note_key(f"context:{'unknown' if ow is None else 'canon' if ow.prefix == p else 'syn'}:{'e' if p == '' else 'p'}",
                       ow is not None and (ow.prefix != p or p == "" or ow.prefix == ""))
    # triples files
    refs = [o for o, *_ in objs] or [api.Reference(prefix="a", identifier="1")]
    triples = [Triple(subject=rng.choice(refs), predicate=rng.choice(refs), object=rng.choice(refs)) for _ in range(rng.randint(0, 4))]
    feats = "".join(sorted({c for t in triples for r in (t.subject, t.predicate, t.object) for c in ifeat(r.identifier)}))
    for name in ("t.tsv", "t.tsv.gz"):
        evaluated("ref:triples-file")
        path = ctx.tmp / name
        # "triples: Iterable[Triple]": a list, a tuple or a one-shot iterable
        shape = rng.choice(["list", "list", "tuple", "generator", "iterator"])
        S.counters[f"wl:triples-handed-over-as:{shape}"] += 1
        given = {"list": lambda: list(triples), "tuple": lambda: tuple(triples), "generator": lambda: (t for t in triples),
                 "iterator": lambda: iter(list(triples))}[shape]()
        wo = call(write_triples, given, path if rng.random() < 0.5 else str(path))
        back = call(read_triples, path) if wo[0] == "ret" else wo
        want = [(t.subject.pair, t.predicate.pair, t.object.pair) for t in triples]
        got = [(t.subject.pair, t.predicate.pair, t.object.pair) for t in back[1]] if back[0] == "ret" else back
        if got != want:
            mech = "triples-file-round-trip-differs"
            if any("\r" in r[1] for t in want for r in t):
                mech = "carriage-return-lost-in-triples-file"
            violation(["C15"], "ref:triples-file", mech, file=name, written=want, read_back=got)
    probe.note_key(f"triples:{feats or '-'}:n{len(triples)}", bool(feats.strip("-")) and bool(triples))
    S.counters["wl:pools"] += 1
    if g % 127 == 0:
        probe.sample({"pool": [repr(o) for o, *_ in pool], "triples_written": len(triples),
                      "converter_context": [spec.rec_dict(r) for r in recs]})

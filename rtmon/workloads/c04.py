"""C04 Strict construction enforces one owner per CURIE prefix and per URI prefix."""

from __future__ import annotations

import itertools

from .. import gen, probe, spec
from ..probe import violation
from .common import call

PROP = "C04"
LEVEL = "exploration"
CASES = {"quick": 800, "thorough": 200000}
SHARDS = {"quick": 8, "thorough": 16}
ANCHORS = [
    "api.py:_get_duplicate_uri_prefixes", "api.py:_get_duplicate_prefixes", "api.py:Converter.__init__",
    "api.py:Record.prefix_not_in_synonyms", "api.py:Record.uri_prefix_not_in_synonyms", "api.py:Converter.bimap",
    "api.py:Converter.reverse_bimap", "api.py:Converter.from_prefix_map", "api.py:Converter.from_priority_prefix_map",
    "api.py:Converter.from_reverse_prefix_map", "api.py:Converter.from_extended_prefix_map", "api.py:Converter.from_jsonld",
]
# public functions the driver does not call itself (the library reaches them internally today): missing => reported, not inconclusive
SOFT_ANCHORS = ['api.py:Record.prefix_not_in_synonyms', 'api.py:Record.uri_prefix_not_in_synonyms']
DECIDING = ["construct", "record-self-synonym", "loader-self-synonym"]
RULE = (
    "bounded world: every ordered pair of the 81 records over CURIE prefixes {a,b,c} and URI prefixes {u,v,w} with at most "
    "one synonym per side is constructed (coverage.small_world_exhaustive). Random part: case = a clash-free record collection with 0-2 injected clashes of a chosen kind (canonical/canonical, "
    "canonical/synonym, synonym/canonical, synonym/synonym; CURIE side, URI side or both; sometimes a record repeats one "
    "of its own synonyms, which is not a clash), constructed in every order "
    "(all permutations up to 4 records, sampled above) through Converter(...) and, re-expressed in each format, through "
    "from_prefix_map / from_priority_prefix_map / from_reverse_prefix_map / from_extended_prefix_map / from_jsonld; every "
    "third clash-free collection is also constructed, grown by a merging add_prefix, and then its very Record objects "
    "(and copies of them) are used to construct again together with a record clashing on the acquired synonym; every "
    "25th case is a large valid map (100-400 records with nested URI prefixes), sometimes with one clash hidden in it. The "
    "monitor on Converter.__init__ computes all cross-record clashes independently and demands: no clash <=> success; URI "
    "clash => DuplicateURIPrefixes, else DuplicatePrefixes; the reported strings are exactly the clashing ones and each "
    "summary names two different records holding it; on success the lookup structures, bimap/reverse_bimap (inverse "
    "bijections) and get_prefixes/get_uri_prefixes equal what the records denote. Record(...) listing its own canonical "
    "value as synonym must fail validation. key = clash kinds present x route x size class; non-trivial = a synonym-level "
    "clash, a both-sides clash, or a valid map with nested URI prefixes and >= 20 records."
    " One case in 25: a record with 31-300 synonyms in the caller's order and a second record claiming one of them or not (round 21)."
)
ASSUMPTIONS = ["independent clash finder rtmon.spec.clashes (pairwise set intersection)"]

LEVELS = ["cc", "cs", "sc", "ss"]


def inject(rng, recs, side, level):
    """Copy a string of record i into record j so that they clash; returns a label or None."""
    if len(recs) < 2:
        return None
    i, j = rng.sample(range(len(recs)), 2)
    a, b = recs[i], recs[j]
    if side == "curie":
        src = a.prefix if level[0] == "c" or not a.psyn else rng.choice(a.psyn)
        if src in spec.all_p(b):
            return None
        recs[j] = b._replace(prefix=src) if level[1] == "c" else b._replace(psyn=b.psyn + (src,))
    else:
        src = a.uri_prefix if level[0] == "c" or not a.usyn else rng.choice(a.usyn)
        if src in spec.all_u(b):
            return None
        recs[j] = b._replace(uri_prefix=src) if level[1] == "c" else b._replace(usyn=b.usyn + (src,))
    if spec.self_clash(recs[j]):
        recs[j] = b
        return None
    lv = ("c" if src in (a.prefix, a.uri_prefix) else "s") + level[1]
    return f"{side}-{lv}"


# ---- bounded-exhaustive small world ----------------------------------------------------------------------------------
# every record over CURIE prefixes {a, b, c} and URI prefixes {u, v, w} with at most one synonym on each side (never its
# own canonical value): 3 * 3 * 3 * 3 = 81 records; every ordered pair of them (6561 collections) is constructed
def small_records():
    out = []
    for p in "abc":
        for ps in [()] + [(x,) for x in "abc" if x != p]:
            for u in "uvw":
                for us in [()] + [(x,) for x in "uvw" if x != u]:
                    out.append(spec.Rec(p, u, ps, us, None))
    return out


_SMALL = small_records()
SMALL_CHUNK = 9  # first records per chunk; each is paired with all 81 second records


def n_small_chunks():
    return -(-len(_SMALL) // SMALL_CHUNK)


def small_world_case(ctx, g):
    api, S = ctx.api, probe.S
    for r1 in _SMALL[g * SMALL_CHUNK:(g + 1) * SMALL_CHUNK]:
        for r2 in _SMALL:
            call(api.Converter, [gen.mk_record(api, r1), gen.mk_record(api, r2)])
            S.counters["wl:small-world-pairs"] += 1
    probe.note_key(f"small-world:chunk{g}", True)


def EXHAUSTIVE(tier, counters):
    n = counters.get("wl:small-world-pairs", 0)
    total = len(_SMALL) ** 2
    return {
        "small_world_exhaustive": n == total,
        "explanation": f"{n} of {total} ordered pairs of the 81 records over CURIE prefixes {{a,b,c}} / URI prefixes {{u,v,w}} with <= 1 synonym per side constructed (iff checked on each); random collections beyond that are sampling",
    }


def run_case(ctx, g, rng):
    api, S = ctx.api, probe.S
    if g < n_small_chunks():
        small_world_case(ctx, g)
    if g % 25 == 24:
        return large_case(ctx, g, rng)
    if g % 25 == 12:
        return many_synonyms_case(ctx, g, rng)
    recs = gen.records(rng, ":", 1, 5, allow_delim=True, patterns=True)
    if g % 7 == 3:
        # the collection is (the Record objects of) the PRODUCT of another operation - a converter grown through merges or
        # derived from another one - plus, sometimes, one record that claims a synonym the product acquired on the way:
        # strict construction, directly and through the extended-prefix-map loader, must refuse exactly then
        clean = gen.records(rng, ":", 1, 4, allow_delim=True)
        prod, how_ = gen.build(api, clean, ":", rng, rng.choice(["grown-by-merge", "via-derivation", "via-derivation", "incremental"]), rejections=False)
        items = list(prod.records)
        syn_p = [x for r in clean for x in r.psyn]
        syn_u = [x for r in clean for x in r.usyn]
        if rng.random() < 0.7 and (syn_p or syn_u):
            if syn_p and (not syn_u or rng.random() < 0.5):
                items.append(api.Record(prefix="zzclash", uri_prefix="http://zz.clash/", prefix_synonyms=[rng.choice(syn_p)]))
            else:
                items.append(api.Record(prefix="zzclash", uri_prefix="http://zz.clash/", uri_prefix_synonyms=[rng.choice(syn_u)]))
        S.counters[f"wl:records-of-a-product:{how_.split('(')[0]}"] += 1
        call(api.Converter, list(items))
        call(api.Converter.from_extended_prefix_map, list(items))
        call(api.Converter.from_extended_prefix_map, [r.model_dump() for r in items])
    labels = []
    for _ in range(rng.choice([0, 1, 1, 1, 2])):
        side = rng.choice(["curie", "uri", "both"])
        for s in (["curie", "uri"] if side == "both" else [side]):
            lab = inject(rng, recs, s, rng.choice(LEVELS))
            if lab:
                labels.append(lab)
    if rng.random() < 0.2:
        # a record may repeat one of its own synonyms: that is one claim by one record, not a clash
        i = rng.randrange(len(recs))
        r = recs[i]
        if r.psyn and rng.random() < 0.5:
            recs[i] = r._replace(psyn=r.psyn + (rng.choice(r.psyn),))
            labels.append("repeat-own-curie-synonym")
        elif r.usyn:
            recs[i] = r._replace(usyn=r.usyn + (rng.choice(r.usyn),))
            labels.append("repeat-own-uri-synonym")
    cl = spec.clashes(recs)
    kinds = "+".join(sorted(set(labels))) or "none"
    both = any(x[0] == "uri" for x in cl) and any(x[0] == "curie" for x in cl)
    nontrivial = any(lab[-2:] != "cc" for lab in labels) or both
    n = len(recs)
    perms = list(itertools.permutations(recs)) if n <= 4 else [rng.sample(recs, k=n) for _ in range(12)]
    if ctx.tier == "quick" and len(perms) > 8:
        perms = rng.sample(perms, k=8)
    outs = set()
    for pi, perm in enumerate(perms):
        made = [gen.mk_record(api, r) for r in perm]
        # "records: Iterable[Record]": every other permutation arrives as a tuple or a one-shot iterable
        shape = rng.choice(["list", "list", "tuple", "generator", "iterator", "map", "keyword"])
        S.counters[f"wl:records-handed-over-as:{shape}"] += 1
        if shape == "tuple":
            o = call(api.Converter, tuple(made))
        elif shape == "generator":
            o = call(api.Converter, (x for x in made))
        elif shape == "iterator":
            o = call(api.Converter, iter(made))
        elif shape == "map":
            o = call(api.Converter, map(lambda x: x, made))
        elif shape == "keyword":
            o = call(api.Converter, records=made, strict=True)
        else:
            o = call(api.Converter, made)
        outs.add(type(o[1]).__name__)
        if o[0] == "ret":
            c = o[1]
            if pi % 2 == 0:
                # the caller keeps and edits the dictionaries / sets it was handed (bimap as "a plain prefix map for
                # legacy systems"); what the converter shows afterwards must still be the bijection over its records
                gen.touch_handed_out_views(c)
                probe.evaluated("views-after-the-caller-edited-earlier-results")
                from ..mon_state import structural_diffs
                with probe.monitor_mode():
                    diffs = structural_diffs(c)
                if diffs:
                    violation(["C04"], "views-after-the-caller-edited-earlier-results", "views-differ-from-records-after-the-caller-edited-what-it-was-handed",
                              records=[spec.rec_dict(r) for r in spec.snapshot(c)], diffs=diffs)
            for r in recs[:3]:
                call(c.expand_pair, r.prefix, "1")
                call(c.compress, r.uri_prefix + "1")
    S.counters["wl:collections"] += 1
    S.counters[f"wl:clash:{kinds}"] += 1
    probe.note_key(f"ctor:{kinds}:both{int(both)}:n{n}", nontrivial)
    if len(outs) > 1:
        violation(["C04"], "construct", "outcome-depends-on-input-order", records=[spec.rec_dict(r) for r in recs], outcomes=sorted(outs))
    # Record objects whose synonym collections arrive as something other than a list of plain strings (pydantic accepts
    # any iterable for list[str]): the record must hold exactly the synonyms it was given - a record that silently
    # loses them hides the clash they would have caused - and a synonym equal to the canonical value must be refused
    # whatever kind of string carries it
    if g % 4 == 0:
        import rdflib

        for r in recs[:3]:
            shape = rng.choice(["generator", "iterator", "tuple", "str-subclass"])
            conv_ = {"generator": lambda xs: (x for x in xs), "iterator": lambda xs: iter(list(xs)), "tuple": tuple,
                     "str-subclass": lambda xs: [gen.Str(x) for x in xs]}[shape]
            ro = call(api.Record, prefix=r.prefix, uri_prefix=r.uri_prefix, prefix_synonyms=conv_(r.psyn), uri_prefix_synonyms=conv_(r.usyn))
            probe.evaluated("record-holds-what-it-was-given")
            if ro[0] != "ret" or list(ro[1].prefix_synonyms) != list(r.psyn) or list(ro[1].uri_prefix_synonyms) != list(r.usyn):
                violation(["C04"], "record-holds-what-it-was-given", "record-lost-synonyms-given-as-" + shape, given=spec.rec_dict(r),
                          observed=ro[1] if ro[0] == "raise" else spec.rec_dict(spec.rec_of(ro[1])))
            for kind, wrap in (("str-subclass", gen.Str), ("URIRef", rdflib.URIRef)):
                for side in ("curie", "uri"):
                    kw_ = dict(prefix=r.prefix, uri_prefix=r.uri_prefix)
                    if side == "curie":
                        kw_["prefix_synonyms"] = [*r.psyn, wrap(r.prefix)]
                    else:
                        kw_["uri_prefix_synonyms"] = [*r.usyn, wrap(r.uri_prefix)]
                    so = call(api.Record, **kw_)
                    probe.evaluated("record-holds-what-it-was-given")
                    if not (so[0] == "raise" and isinstance(so[1], ValueError)):
                        violation(["C04"], "record-holds-what-it-was-given", f"record-accepts-its-own-canonical-value-as-synonym-carried-by-{kind}",
                                  side=side, given=spec.rec_dict(r), observed=spec.rec_dict(spec.rec_of(so[1])))
        S.counters["wl:records-built-from-other-collections"] += 1
    # the same collection through the loaders, as far as the format can express it
    call(api.Converter.from_extended_prefix_map, [spec.rec_dict(r) for r in recs])
    call(api.Converter.from_extended_prefix_map, [gen.mk_record(api, r) for r in recs])
    probe.note_key(f"epm:{kinds}", nontrivial)
    pm, ppm, rpm = {}, {}, {}
    for r in recs:
        for p in spec.all_p(r):
            pm.setdefault(p, r.uri_prefix)
        ppm.setdefault(r.prefix, spec.all_u(r))
        for u in spec.all_u(r):
            rpm.setdefault(u, r.prefix)
    # prefix maps cannot hold two keys for one URI prefix without clashing: that is the point
    # the loaders with their options spelled out ("the default strict mode" may also be asked for explicitly)
    def opts():
        return rng.choice([{}, {}, {"strict": True}, {"strict": True, "delimiter": "|"}, {"delimiter": "/"}])

    call(api.Converter.from_prefix_map, pm, **opts())
    call(api.Converter.from_prefix_map, {r.prefix: r.uri_prefix for r in recs}, **opts())
    call(api.Converter.from_priority_prefix_map, ppm, **opts())
    call(api.Converter.from_reverse_prefix_map, rpm, **opts())
    call(api.Converter.from_extended_prefix_map, [spec.rec_dict(r) for r in recs], **opts())
    ctxd = {}
    for p, u in pm.items():
        ctxd[p] = u if rng.random() < 0.5 else {"@id": u, "@prefix": True}
    call(api.Converter.from_jsonld, {"@context": ctxd}, **opts())
    dup_u = len(set(pm.values())) < len(pm)
    probe.note_key(f"loaders:dupuri{int(dup_u)}:{kinds}", dup_u or nontrivial)
    # Record objects with a past: scanned once, then grown by a merge, then used to construct again
    if g % 3 == 1 and len(recs) >= 2 and not cl:
        objs = [gen.mk_record(api, r) for r in recs]
        o = call(api.Converter, objs)
        if o[0] == "ret":
            c0 = o[1]
            i = rng.randrange(len(recs))
            side = rng.choice(["curie", "uri"])
            newp, newu = f"grown{g % 7}", f"http://grown/{g % 7}/"
            if side == "curie":
                call(c0.add_prefix, recs[i].prefix, recs[i].uri_prefix, [newp], merge=True)
                clash = api.Record(prefix=f"late{g % 5}", uri_prefix="http://late/", prefix_synonyms=[newp] if rng.random() < 0.5 else [])
                if not clash.prefix_synonyms:
                    clash = api.Record(prefix=newp, uri_prefix="http://late/")
            else:
                call(c0.add_prefix, recs[i].prefix, recs[i].uri_prefix, None, [newu], merge=True)
                clash = api.Record(prefix=f"late{g % 5}", uri_prefix=newu) if rng.random() < 0.5 else api.Record(prefix=f"late{g % 5}", uri_prefix="http://late/", uri_prefix_synonyms=[newu])
            grown = list(c0.records)  # the very objects that were scanned before and merged into since
            for batch in ([*grown, clash], [clash, *grown], [r.model_copy(deep=True) for r in grown] + [clash], [r.model_copy() for r in grown] + [clash]):
                call(api.Converter, batch)
            call(api.Converter.from_extended_prefix_map, [*grown, clash])
            call(api.Converter, grown)
            S.counters["wl:record-objects-with-a-past"] += 1
            probe.note_key(f"history:{side}:n{len(recs)}", True)
    # ... nor when the data comes in through a loader
    r = rng.choice(recs)
    call(api.Converter.from_priority_prefix_map, {r.prefix: [r.uri_prefix, *r.usyn, r.uri_prefix]})
    call(api.Converter.from_priority_prefix_map, {r.prefix: [r.uri_prefix, r.uri_prefix]})
    call(api.Converter.from_extended_prefix_map, [{"prefix": r.prefix, "uri_prefix": r.uri_prefix, "prefix_synonyms": [*r.psyn, r.prefix]}])
    call(api.Converter.from_extended_prefix_map, [{"prefix": r.prefix, "uri_prefix": r.uri_prefix, "uri_prefix_synonyms": [r.uri_prefix]}])
    call(api.load_extended_prefix_map, [spec.rec_dict(x) for x in recs[:2]] + [{"prefix": "selfp", "uri_prefix": "http://self/", "prefix_synonyms": ["selfp"]}])
    # a record may never list its own canonical value among its synonyms
    r = rng.choice(recs)
    for kw in (
        dict(prefix=r.prefix, uri_prefix=r.uri_prefix, prefix_synonyms=[*r.psyn, r.prefix]),
        dict(prefix=r.prefix, uri_prefix=r.uri_prefix, uri_prefix_synonyms=[r.uri_prefix, *r.usyn]),
    ):
        o = call(api.Record, **kw)
        probe.evaluated("record-self-synonym")
        if not (o[0] == "raise" and isinstance(o[1], ValueError)):
            violation(["C04"], "record-self-synonym", "record-accepts-own-canonical-value-as-synonym", arguments=kw, observed=o)
    if g % 173 == 0:
        o = call(api.Converter, [gen.mk_record(api, r) for r in recs])
        probe.sample({"records": [spec.rec_dict(r) for r in recs], "injected": labels, "outcome": o if o[0] == "raise" else "constructed"})


def many_synonyms_case(ctx, g, rng):
    """Records with dozens or hundreds of synonyms (a registry record listing every provider's URI prefix, every spelling
    of its prefix), in the order the caller wrote them; another record claims one of them - anywhere in the list - or
    not (seed C04-W: above a number of synonyms the comparison bisects a list nobody sorted)."""
    api, S = ctx.api, probe.S
    side = rng.choice(["curie", "uri"])
    k = rng.choice([31, 32, 33, 40, 64, 65, 120, 300])
    names = [f"syn{i}" for i in range(k)] if side == "curie" else [f"http://prov.org/{i}/" for i in range(k)]
    order = rng.choice(["as-numbered", "shuffled", "reversed", "sorted"])
    if order == "shuffled":
        rng.shuffle(names)
    elif order == "reversed":
        names.reverse()
    elif order == "sorted":
        names.sort()
    longrec = spec.Rec("mm", "http://mm.org/", tuple(names), (), None) if side == "curie" else spec.Rec("mm", "http://mm.org/", (), tuple(names), None)
    recs = [longrec] + [spec.Rec(f"aa{i}" if rng.random() < 0.5 else f"zz{i}", f"http://other.org/{i}/", (), (), None) for i in range(rng.randint(1, 3))]
    kind = "valid"
    if rng.random() < 0.7:
        victim = rng.choice(names)
        j = rng.randrange(1, len(recs))
        b = recs[j]
        level = rng.choice(["c", "s", "s"])
        if side == "curie":
            recs[j] = b._replace(prefix=victim) if level == "c" else b._replace(psyn=(victim,))
        else:
            recs[j] = b._replace(uri_prefix=victim) if level == "c" else b._replace(usyn=(victim,))
        kind = f"{side}-s{level}"
        if rng.random() < 0.3:
            # both records are long: the claimant lists the name among dozens of its own
            own = [f"own{i}" for i in range(40)] if side == "curie" else [f"http://own.org/{i}/" for i in range(40)]
            own.insert(rng.randrange(len(own)), victim)
            recs[j] = b._replace(psyn=tuple(own)) if side == "curie" else b._replace(usyn=tuple(own))
    rng.shuffle(recs)
    call(api.Converter, [gen.mk_record(api, r) for r in recs])
    call(api.Converter.from_extended_prefix_map, [spec.rec_dict(r) for r in recs])
    S.counters[f"wl:many-synonyms:{side}:k{k}:{order}:{kind}"] += 1
    probe.note_key(f"many-synonyms:{side}:{kind}:{order}", True)


def large_case(ctx, g, rng):
    api, S = ctx.api, probe.S
    n = rng.randint(100, 400) if rng.random() < 0.97 or ctx.tier != "thorough" else rng.choice([1100, 2500])
    recs = []
    for i in range(n):
        base = f"http://x/{i % 37}/"
        u = base + f"{i}_" if i >= 37 else base
        usyn = (f"https://x/{i}#",) if i % 5 == 0 else ()
        psyn = (f"P{i}",) if i % 3 == 0 else ()
        recs.append(spec.Rec(f"p{i}", u, psyn, usyn, None))
    kind = "valid"
    if rng.random() < 0.4:
        lab = inject(rng, recs, rng.choice(["curie", "uri"]), rng.choice(LEVELS))
        kind = lab or "valid"
    rng.shuffle(recs)
    o = call(api.Converter, [gen.mk_record(api, r) for r in recs])
    if o[0] == "ret":
        c = o[1]
        for r in rng.sample(recs, k=5):
            call(c.compress, r.uri_prefix + "1")
            call(c.expand, r.prefix + ":1")
    S.counters["wl:large-maps"] += 1
    probe.note_key(f"large:{kind}:n{n // 100}", True)

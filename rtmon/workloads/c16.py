"""C16 Bulk operations equal element-wise scalar calls and fail atomically."""

from __future__ import annotations

import csv
import io
import sys

from .. import gen, probe, spec
from ..probe import evaluated, violation
from .common import call

PROP = "C16"
LEVEL = "fault_enumeration"
CASES = {"quick": 400, "thorough": 50000}
SHARDS = {"quick": 8, "thorough": 16}
ANCHORS = [
    "api.py:Converter.pd_compress", "api.py:Converter.pd_expand", "api.py:Converter.pd_standardize_prefix",
    "api.py:Converter.pd_standardize_curie", "api.py:Converter.pd_standardize_uri", "api.py:Converter.file_compress",
    "api.py:Converter.file_expand", "api.py:Converter._file_helper",
]
DECIDING = [
    "bulk:pd_compress", "bulk:pd_expand", "bulk:pd_standardize_prefix", "bulk:pd_standardize_curie", "bulk:pd_standardize_uri",
    "bulk:file_compress", "bulk:file_expand", "bulk:atomicity", "fault-enumeration",
]
LEVEL_TEXT = (
    "Atomicity: for every generated table the failing position is enumerated completely - an injected conversion error at "
    "the k-th scalar call for every k in 1..n (source-free failpoint in the wrapper), a genuinely unconvertible cell in "
    "strict mode at every row, and a row too short for the column at every row - and after each raising call the file's "
    "bytes are compared with the bytes before. Equality with scalar calls: trace checker over the recorded call events of "
    "each bulk call (exploration over generated tables and flag combinations)."
)
RULE = (
    "case = a strict converter (synonyms on both sides, sometimes a non-colon delimiter) and a table of 0-12 rows x 1-4 "
    "columns of string cells: convertible URIs / CURIEs, unknown values, delimiter-free and empty cells, cells with the "
    "separator, quotes, embedded newlines and carriage returns; header yes/no, every column index, tab and custom "
    "separators, both line terminators; all strict x passthrough x ambiguous combinations. Data frames: each pd_* method, "
    "with and without target_column, on frames with the default, a shuffled, a string, an offset index, and on filtered "
    "and sorted frames. The trace checker demands exactly one call of the dictated scalar method with the "
    "dictated flags per cell, in row order, output cells equal to those calls' results (None => NA / empty cell), every "
    "other column, the header row and the row order unchanged. Fault enumeration: see level. key = operation x flags x "
    "table features (quoting-sensitive cells, carriage return, failing cells, header, separator, column position) x "
    "outcome; non-trivial = the table has a cell that fails to convert or is quoting-sensitive, or a fault was injected."
)
ASSUMPTIONS = [
    "tables are re-parsed with Python's csv module (newline='') on both sides", "only string cells (the property's domain)",
    "header=True requires a non-empty first row (DESIGN 7.3)",
]

SEPS = [None, None, ",", ";", "|"]


def make_cells(rng, recs, d, n, hostile):
    allu = [u for r in recs for u in spec.all_u(r)]
    allp = [p for r in recs for p in spec.all_p(r)]
    pool = [u + rng.choice(["1", "x/y", ""]) for u in allu] + [p + d + rng.choice(["1", "0002", "", "no!", p + d + "7"]) for p in allp]
    # (unconvertible cells that pass through unchanged, among them ones a spreadsheet would read as formulas - seed C16-R)
    bad = ["zz" + d + "1", "nodelim", "", "http://nope/1", d, "-", "+1 555 0100", "@id", "=x", "=1+1", "\tx", "'q"]
    # (a convertible value with a blank, a tab or a no-break space at either edge is another string: usually unconvertible,
    #  and when it converts the blank belongs to the identifier - seed C16-U: primitives that strip)
    edged = [rng.choice([" ", "\t", "\u00a0", "  "]) + x for x in pool[:3]] + [x + rng.choice([" ", "\t", "\u00a0", " \n"[:1]]) for x in pool[:4]]
    cells = []
    for _ in range(n):
        r = rng.random()
        cells.append(rng.choice(pool) if r < 0.6 or not hostile else rng.choice(bad + pool + edged))
    return cells


OTHER = ["o", "", "a,b", 'q"z', "x\ty", "l1\nl2", "c\rd", "e\r\nf", " s ", "é", "a;b|c",
         # characters that are line boundaries for str.splitlines but not for a file opened with newline=""
         "v\x0bt", "f\x0cf", "fs\x1c", "gs\x1dx", "rs\x1e", "nel\x85x", "ls\u2028x", "ps\u2029"]


def write_table(path, head, rows, sep, lineterminator):
    buf = io.StringIO(newline="")
    w = csv.writer(buf, delimiter=sep or "\t", lineterminator=lineterminator)
    if head is not None:
        w.writerow(head)
    w.writerows(rows)
    path.write_bytes(buf.getvalue().encode("utf-8"))


def setup(ctx):
    import pandas

    ctx.pd = pandas
    ctx.opens = []

    def hook(event, args):
        if event == "open" and ctx.opens is not None and isinstance(args[0], str) and "c16" in args[0]:
            ctx.opens.append((args[1], probe.S.counters["bulk:scalar-calls-seen"]))

    sys.addaudithook(hook)


def at_scale_case(ctx, g, rng):
    """tables far above any plausible chunk size; a failing cell, if any, near the end"""
    api, S, pd = ctx.api, probe.S, ctx.pd
    d = rng.choice([":", "/"])
    recs = gen.large_records(rng, 40, d)
    n = rng.choice([1500, 12000]) if ctx.tier == "thorough" else 1100
    allu = [u for r in recs for u in spec.all_u(r)]
    allp = [p for r in recs for p in spec.all_p(r)]
    fail_at = rng.choice([None, None, n - 2, n // 2 + 1])
    for meth, pool in (("compress", allu), ("expand", [p + d for p in allp])):
        cells = [rng.choice(pool) + str(i % 97) for i in range(n)]
        if fail_at is not None:
            cells[fail_at] = "zz" + d + "unknown" if meth == "expand" else "http://nope/1"
        rows = [[str(i), c, "o\tx" if i % 50 == 0 else "o"] for i, c in enumerate(cells)]
        with probe.monitor_mode():
            conv = api.Converter([gen.mk_record(api, r) for r in recs], delimiter=d)
        strict = fail_at is not None and rng.random() < 0.5
        df = pd.DataFrame({"i": [r[0] for r in rows], "x": [r[1] for r in rows], "o": [r[2] for r in rows]})
        # (large frames are seldom fresh from the constructor: sorted, filtered, re-indexed - seed C16-W: a fast path for
        #  long columns that puts the results back by label instead of by position)
        istyle = rng.choice(["default", "shuffled", "strings", "offset", "filtered", "sorted", "reversed"])
        if istyle == "shuffled":
            df.index = rng.sample(range(n), k=n)
        elif istyle == "strings":
            df.index = [f"row{i}" for i in rng.sample(range(n), k=n)]
        elif istyle == "offset":
            df.index = range(100, 100 + n)
        elif istyle == "filtered":
            df = df[[i % 3 != 1 for i in range(n)]]
        elif istyle == "sorted":
            df = df.sort_values("x", kind="stable")
        elif istyle == "reversed":
            df = df.iloc[::-1]
        S.counters[f"wl:at-scale:frame-index:{istyle}"] += 1
        call(getattr(conv, "pd_" + meth), df, "x", target_column=rng.choice([None, "y"]), strict=strict, passthrough=rng.random() < 0.3)
        path = ctx.tmp / "c16.tsv"
        write_table(path, ["i", "x", "o"], rows, None, "\n")
        call(getattr(conv, "file_" + meth), path, 1, strict=strict, passthrough=rng.random() < 0.3)
    S.counters[f"wl:at-scale:n{n}"] += 1
    probe.note_key(f"at-scale:n{n}:fail{fail_at is not None}", True)


def run_case(ctx, g, rng):
    if g % 61 == 61 - 1:
        return at_scale_case(ctx, g, rng)
    api, S, pd = ctx.api, probe.S, ctx.pd
    d = rng.choice([":", ":", ":", "/", "_"])
    recs = gen.records(rng, d, 1, 3)
    if not recs:
        return
    if rng.random() < 0.3 and recs[0].uri_prefix and not any(r.prefix == "zznest" for r in recs):
        # nested URI prefixes inside one map (".../obo/" and ".../obo/GO_"): the longest one decides, cell by cell, in
        # whatever order the records were registered (seed C16-G)
        nest = recs[0].uri_prefix + rng.choice(["GO_", "N", "x/"])
        if not any(nest in spec.all_u(r) for r in recs) and d not in "zznest":
            recs.append(spec.Rec("zznest", nest, (), (), None))
    conv = api.Converter([gen.mk_record(api, r) for r in recs], delimiter=d)

    def fresh():
        # every bulk call gets a converter of its own, often registered record by record or grown through merges and
        # sometimes built with the monitors off: whatever the scalar methods do on first use happens inside the bulk call
        if rng.random() < 0.12:
            # a user subclass overriding the documented hook: scalar and bulk must still agree cell by cell
            S.counters["wl:build:hooked-subclass"] += 1
            return gen.hooked_subclass(api)([gen.mk_record(api, r) for r in recs], delimiter=d)
        # (one bulk call in four works on the product of another operation - a rewired, remapped, chained or subset converter:
        #  what the scalar methods answer there is what the bulk call must write; seed C16-V)
        #  another quarter is extended after construction (seed C16-G needs an incrementally registered nested prefix)
        pick = rng.random()
        if pick > 0.85 and len(recs) > 1:
            # extended after construction with nobody watching, shorter URI prefixes first (so that nested, longer ones
            # arrive later), and used for the bulk call at once: whatever the scalar methods do on first use happens inside it
            with probe.monitor_mode():
                order = sorted(recs, key=lambda r: len(r.uri_prefix))
                k = rng.randint(1, len(order) - 1)
                c = api.Converter([gen.mk_record(api, r) for r in order[:k]], delimiter=d)
                for r in order[k:]:
                    c.add_prefix(r.prefix, r.uri_prefix, list(r.psyn), list(r.usyn))
            S.counters["wl:build:extended-after-construction-unobserved"] += 1
            return c
        c, how = gen.build(api, recs, d, rng, "via-derivation" if pick < 0.25 else rng.choice(["incremental", "mixed"]) if pick < 0.5 else None)
        S.counters[f"wl:build:{how}"] += 1
        return c

    n = rng.randint(0, 12)
    ncols = rng.randint(1, 4)
    col = rng.randrange(ncols)
    hostile = rng.random() < 0.6
    cells = make_cells(rng, recs, d, n, hostile)
    rows = []
    for i in range(n):
        row = [rng.choice(OTHER) if rng.random() < 0.5 else str(i) for _ in range(ncols)]
        row[col] = cells[i]
        rows.append(row)
    if rows and rng.random() < 0.15:
        # the first cell of the table (of the header, when there is one) starts like a comment line of other tools: '#', '//',
        # ';', '%' - characters like any other in a table of string cells (seed C16-P: a "#"-preamble kept verbatim)
        lead = rng.choice(["#", "# ", "//", ";", "%", "--", "#curie_map: "])
        for r_ in rows[:rng.randint(1, 2)]:
            r_[0] = lead + r_[0]
        S.counters["wl:first-cells-that-look-like-comment-lines"] += 1
    if rows and rng.random() < 0.12:
        # U+FEFF as the first character of the first cell (of the header, when there is one): a character like any other
        rows[0][0] = "\ufeff" + rows[0][0]
    feats = set()
    if any(c in x for r in rows for x in r for c in '",;|\t\n'):
        feats.add("quoting")
    if any("\r" in x for r in rows for x in r):
        feats.add("cr")
    # ---- data frames ---------------------------------------------------------
    names = [f"c{j}" if rng.random() < 0.7 else j for j in range(ncols)]
    for meth in ("pd_compress", "pd_expand", "pd_standardize_prefix", "pd_standardize_curie", "pd_standardize_uri"):
        strict, pt = rng.choice([(False, False), (False, True), (True, False), (False, False)])
        amb = rng.random() < 0.5
        target = rng.choice([None, None, "new", names[(col + 1) % ncols]])
        df = pd.DataFrame({names[j]: [r[j] for r in rows] for j in range(ncols)})
        istyle = rng.choice(["default", "default", "shuffled", "strings", "offset", "filtered", "sorted"])
        if n and istyle == "shuffled":
            df.index = rng.sample(range(n), k=n)
        elif n and istyle == "strings":
            df.index = [f"row{i}" for i in rng.sample(range(n), k=n)]
        elif n and istyle == "offset":
            df.index = range(100, 100 + n)
        elif n > 1 and istyle == "filtered":
            df = df[[i % 3 != 1 for i in range(n)]]
        elif n > 1 and istyle == "sorted":
            df = df.sort_values(names[col], kind="stable")
        S.counters[f"wl:frame-index:{istyle}"] += 1
        dt = rng.choice(["default", "default", "object", "string", "category"])
        if dt != "default":
            df[names[col]] = df[names[col]].astype(dt)  # the column's storage type is not the data's business
        S.counters[f"wl:column-dtype:{dt}"] += 1
        kw = {"strict": strict, "passthrough": pt}
        if meth in ("pd_compress", "pd_expand"):
            kw["ambiguous"] = amb
            o = call(getattr(fresh(), meth), df, names[col], target_column=target, **kw)
        else:
            o = call(getattr(fresh(), meth), df, column=names[col], target_column=target, **kw)
        probe.note_key(f"{meth}:s{int(strict)}p{int(pt)}a{int(amb)}:t{target is not None}:{o[0]}:{'+'.join(sorted(feats))}:h{int(hostile)}",
                       hostile or bool(feats))
        S.counters[f"wl:{meth}:{o[0]}"] += 1
    # ---- files -----------------------------------------------------------------
    # (the name of the table is the caller's: common and less common suffixes, none, a leading dot, a trailing tilde)
    path = ctx.tmp / rng.choice(["c16.tsv", "c16.tsv", "c16.tmp", "c16.tsv.tmp", "c16.bak", "c16", ".c16.tsv", "c16.tsv~", "c16.csv.new", "c16.swp"])
    sep = rng.choice(SEPS)
    header = rng.random() < 0.6
    head = [rng.choice(["h", "uri", "", "h\nx", "a b"]) + str(j) for j in range(ncols)] if header else None
    if head and rng.random() < 0.12:
        head[0] = "\ufeff" + head[0]
    elif head and rng.random() < 0.15:
        head[0] = rng.choice(["#", "# ", "//", ";"]) + head[0]
    lt = rng.choice(["\n", "\r\n"])
    for meth in ("file_compress", "file_expand"):
        strict, pt = rng.choice([(False, False), (False, True), (True, False), (True, True)])
        amb = rng.random() < 0.5
        write_table(path, head, rows, sep, lt)
        kw = {"header": header, "strict": strict, "passthrough": pt, "ambiguous": amb}
        if sep is not None or rng.random() < 0.3:
            kw["sep"] = sep
        # (the column is addressed from the front or, one call in five, from the end: -1 is the last column)
        col_arg = col if rng.random() < 0.8 else col - ncols
        o = call(getattr(fresh(), meth), path if rng.random() < 0.5 else str(path), col_arg, **kw)
        S.counters["wl:column-addressed-from-the-end"] += col_arg < 0
        probe.note_key(f"{meth}:s{int(strict)}p{int(pt)}a{int(amb)}:h{int(header)}:sep{sep}:col{min(col, 2)}of{ncols}:{o[0]}:{'+'.join(sorted(feats))}:h{int(hostile)}",
                       hostile or bool(feats))
        S.counters[f"wl:{meth}:{o[0]}"] += 1
    # ---- fault enumeration: every position of the first failing row ---------------
    if n == 0:
        return
    meth = rng.choice(["file_compress", "file_expand"])
    amb = rng.random() < 0.4
    scalar = {"file_compress": ("compress", "compress_or_standardize"), "file_expand": ("expand", "expand_or_standardize")}[meth][int(amb)]
    allu = [u for r in recs for u in spec.all_u(r)]
    allp = [p for r in recs for p in spec.all_p(r)]
    good = (allu[0] + "1") if meth == "file_compress" else (allp[0] + d + "1")
    if meth == "file_expand" and (allp[0] + d + "1").find(d) != len(allp[0]):
        good = spec.SpecConverter(recs, d).fmt(recs[0].prefix, "1")
    err = api.CompressionError if meth == "file_compress" else api.ExpansionError
    base_rows = [list(r) for r in rows]
    for r in base_rows:
        r[col] = good
    for k in range(1, n + 1):
        for leg in ("injected", "strict-cell", "short-row"):
            rws = [list(r) for r in base_rows]
            kw = {"header": header, "ambiguous": amb}
            if sep is not None:
                kw["sep"] = sep
            if leg == "injected":
                kw.update(strict=rng.random() < 0.5, passthrough=rng.random() < 0.5)
                count = [0]

                def fp(fn_name, args, kwargs, count=count, k=k):
                    if fn_name == scalar and args and args[0] is conv:
                        count[0] += 1
                        if count[0] == k:
                            return err("injected failure")
                    return None
            elif leg == "strict-cell":
                kw.update(strict=True, passthrough=rng.random() < 0.5)
                msp = spec.SpecConverter(recs, d)
                model = {"compress": msp.compress, "expand": msp.expand, "compress_or_standardize": msp.compress_or_standardize,
                         "expand_or_standardize": msp.expand_or_standardize}[scalar]
                bad = [x for x in ("zz" + d + "unknown", "http://nope/1", "nodelim", "\x00?") if model(x) is None]
                if not bad:
                    continue
                rws[k - 1][col] = rng.choice(bad)
                fp = None
            else:
                if col == 0:
                    rws[k - 1] = []
                else:
                    rws[k - 1] = rws[k - 1][:col]
                kw.update(strict=False, passthrough=rng.random() < 0.5)
                fp = None
            write_table(path, head, rws, sep, lt)
            before = path.read_bytes()
            ctx.opens = []
            S.failpoint = fp
            try:
                o = call(getattr(conv, meth), path, col, **kw)
            finally:
                S.failpoint = None
            opens, ctx.opens = ctx.opens, None
            evaluated("fault-enumeration")
            S.counters[f"wl:fault:{leg}"] += 1
            S.counters["wl:fault:write-opens-seen-in-failing-calls"] += sum(1 for m, _ in opens if m and "w" in m)
            after = path.read_bytes()
            w = {"operation": meth, "leg": leg, "failing_row": k, "rows": n, "column": col, "flags": kw,
                 "records": [spec.rec_dict(r) for r in recs]}
            if leg == "injected" and count[0] < k:
                # the implementation did not go through the public scalar method k times: the failpoint never fired and
                # this leg says nothing (the two legs with genuinely failing cells still decide atomicity)
                S.counters["wl:fault:injected-failpoint-not-reached"] += 1
                continue
            if o[0] != "raise":
                violation(["C16"], "fault-enumeration", "failing-cell-does-not-make-the-file-operation-raise", **w)
            elif after != before:
                violation(["C16"], "fault-enumeration", "file-changed-although-the-operation-raised",
                          bytes_before=before.decode("utf-8", "replace")[:300], bytes_after=after.decode("utf-8", "replace")[:300], **w)
            probe.note_key(f"fault:{leg}:{meth}:a{int(amb)}:k{'first' if k == 1 else 'last' if k == n else 'mid'}:h{int(header)}:n{min(n, 3)}", True)
    if g % 61 == 0:
        probe.sample({"records": [spec.rec_dict(r) for r in recs], "delimiter": d, "table": rows[:4], "column": col, "separator": sep,
                      "header": head, "fault_positions_enumerated": n, "legs": ["injected", "strict-cell", "short-row"]})

"""Reach of the anchored code: which curies functions were entered (sys.monitoring, 3.12+)."""

from __future__ import annotations

import sys

entered: set = set()
_on = False


def start(src_root: str):
    global _on
    mon = getattr(sys, "monitoring", None)
    if mon is None or _on:
        return False
    tool = mon.COVERAGE_ID
    try:
        mon.use_tool_id(tool, "rtmon-cover")
    except ValueError:
        return False
    marker = "/curies/"

    def on_start(code, offset):
        fn = code.co_filename
        if marker in fn:
            entered.add(fn.rsplit(marker, 1)[1] + ":" + code.co_qualname)
        return mon.DISABLE

    mon.register_callback(tool, mon.events.PY_START, on_start)
    mon.set_events(tool, mon.events.PY_START)
    _on = True
    return True


def missing(anchors):
    """Anchors are 'file.py:Qual.name' strings; returns those never entered."""
    return [a for a in anchors if a not in entered]

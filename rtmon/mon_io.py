"""C13 (loaders denote exactly their input) and C14 (written contexts read back)."""

from __future__ import annotations

import collections
import copy
import csv
import itertools
import json
import random
from pathlib import Path

from . import probe, spec
from .mon_core import api, domain_spec
from .mon_derive import dicts, norm_set
from .probe import Monitor, evaluated, out_of_domain, outcome_of, violation

LOADERS = (
    "from_prefix_map", "from_priority_prefix_map", "from_reverse_prefix_map",
    "from_extended_prefix_map", "from_jsonld", "from_rdflib",
)


def _is_url(s):
    return any(s.startswith(p) for p in ("https://", "http://", "ftp://"))


def _strs(*xs):
    return all(isinstance(x, str) for x in xs)


def denote(fn, obj):
    """The records an input object denotes, or None when the object is outside the format."""
    R = spec.Rec
    if fn == "from_prefix_map":
        if not isinstance(obj, dict) or not _strs(*obj, *obj.values()):
            return None
        return [R(p, u, (), (), None) for p, u in obj.items()]
    if fn == "from_priority_prefix_map":
        if not isinstance(obj, dict):
            return None
        out = []
        for p, us in obj.items():
            if not isinstance(p, str) or not isinstance(us, list) or not us or not _strs(*us):
                return None
            out.append(R(p, us[0], (), tuple(us[1:]), None))
        return out
    if fn == "from_reverse_prefix_map":
        if not isinstance(obj, dict) or not _strs(*obj, *obj.values()):
            return None
        g = collections.defaultdict(list)
        for u, p in obj.items():
            g[p].append(u)
        # canonical: *a* shortest; the monitor compares canonical length and the whole set
        return [R(p, min(us, key=len), (), tuple(sorted(set(us) - {min(us, key=len)})), None) for p, us in g.items()]
    if fn == "from_extended_prefix_map":
        if not isinstance(obj, (list, tuple)):
            return None
        out = []
        for d in obj:
            if isinstance(d, api().Record):
                out.append(spec.rec_of(d))
                continue
            if not isinstance(d, dict) or set(d) - {"prefix", "uri_prefix", "prefix_synonyms", "uri_prefix_synonyms", "pattern"}:
                return None
            if not _strs(d.get("prefix"), d.get("uri_prefix")):
                return None
            ps, us, pat = d.get("prefix_synonyms", []), d.get("uri_prefix_synonyms", []), d.get("pattern")
            if not isinstance(ps, list) or not isinstance(us, list) or not _strs(*ps, *us) or not (pat is None or isinstance(pat, str)):
                return None
            out.append(R(d["prefix"], d["uri_prefix"], tuple(ps), tuple(us), pat))
        return out
    if fn == "from_jsonld":
        if not isinstance(obj, dict) or not isinstance(obj.get("@context"), dict):
            return None
        pm = {}
        for k, v in obj["@context"].items():
            if not isinstance(k, str):
                return None
            if not k or k.startswith("@"):
                continue
            if isinstance(v, str):
                pm[k] = v
            elif isinstance(v, dict) and v.get("@prefix") is True:
                if not isinstance(v.get("@id"), str):
                    return None  # DESIGN 7.3: outside the quantifier
                pm[k] = v["@id"]
        return [R(p, u, (), (), None) for p, u in pm.items()]
    return None


def materialize_loader(args, kwargs):
    """from_extended_prefix_map(cls, records): a one-shot iterable of records stays one-shot for the loader but is
    readable by the monitor (probe.OneShot)."""
    keep = (list, tuple, str, Path)
    if len(args) >= 2 and not isinstance(args[1], keep):
        args = (args[0], probe.one_shot_or_list(args[1], keep), *args[2:])
    elif "records" in kwargs and not isinstance(kwargs["records"], keep):
        kwargs = dict(kwargs, records=probe.one_shot_or_list(kwargs["records"], keep))
    return args, kwargs


class LoaderMonitor(Monitor):
    name = "loader"

    def pre(self, fn, args, kwargs):
        mon = f"{self.name}:{fn}"
        a, kw = list(args[1:]), dict(kwargs)
        if args[0] is not api().Converter:
            out_of_domain(mon, "subclass")
            return None
        data = a.pop(0) if a else None
        if data is None:
            for k in ("prefix_map", "data", "records", "reverse_prefix_map", "graph_or_manager"):
                if k in kw:
                    data = kw.pop(k)
                    break
        if a or data is None:
            out_of_domain(mon, "signature")
            return None
        strict = kw.pop("strict", True)
        if strict not in (True, False):
            out_of_domain(mon, "strict-flag")
            return None
        delimiter = kw.pop("delimiter", ":")
        if kw or not isinstance(delimiter, str):
            out_of_domain(mon, "kwargs")
            return None
        source = "object"
        if fn == "from_rdflib":
            try:
                pm = {str(p): str(ns) for p, ns in data.namespaces()}
            except Exception:  # noqa: BLE001
                out_of_domain(mon, "not-rdflib")
                return None
            return {"recs": [spec.Rec(p, u, (), (), None) for p, u in pm.items()], "source": "rdflib", "input": pm, "strict": strict, "delimiter": delimiter}
        if isinstance(data, (str, Path)):
            if isinstance(data, str) and _is_url(data):
                out_of_domain(mon, "url")
                return None
            try:
                with open(data) as f:
                    obj = json.load(f)
            except Exception:  # noqa: BLE001
                out_of_domain(mon, "unreadable-file")
                return None
            source = "str-path" if isinstance(data, str) else "Path"
        else:
            if isinstance(data, probe.OneShot):
                data, source = data.items, "one-shot-iterable"
            if fn == "from_extended_prefix_map" and not isinstance(data, (list, tuple)):
                out_of_domain(mon, "iterable-of-unknown-kind")
                return None
            obj = copy.deepcopy(data)
        recs = denote(fn, obj)
        if recs is None:
            out_of_domain(mon, "outside-format")
            return None
        return {"recs": recs, "source": source, "input": obj, "strict": strict, "delimiter": delimiter}

    def _non_strict(self, fn, ctx, outcome, w):
        """strict=False: whatever the loader makes of clashing input, the pairs it lists whose strings are claimed by
        one record only still expand and compress as the input dictates."""
        mon = f"{self.name}:{fn}"
        kind, val = outcome
        recs, d = ctx["recs"], ctx["delimiter"]
        if kind == "raise":
            return  # not promised either way
        claims_p = collections.Counter(p for r in recs for p in set(spec.all_p(r)))
        claims_u = collections.Counter(u for r in recs for u in set(spec.all_u(r)))
        evaluated("loader-non-strict")
        for r in recs:
            for p in spec.all_p(r):
                if claims_p[p] != 1 or claims_p[r.prefix] != 1 or d in p:
                    continue
                got = outcome_of(val.expand, p + d + "1")
                if got != ("ret", r.uri_prefix + "1"):
                    violation(["C13"], mon, "non-strict-load:listed-prefix-does-not-expand-as-dictated", prefix=p, expected=r.uri_prefix + "1", observed=got,
                              denoted=dicts(recs), **w)
                    return
            for u in spec.all_u(r):
                q = u + "1"
                matches = [(x, o) for o in recs for x in spec.all_u(o) if q.startswith(x)]
                longest = max(len(x) for x, _ in matches)
                top = {x for x, _ in matches if len(x) == longest}
                if top != {u} or claims_u[u] != 1:
                    continue
                got = outcome_of(val.compress, q)
                if got != ("ret", r.prefix + d + "1"):
                    violation(["C13"], mon, "non-strict-load:listed-uri-prefix-does-not-compress-as-dictated", uri=q, expected=r.prefix + d + "1", observed=got,
                              denoted=dicts(recs), **w)
                    return

    def post(self, fn, ctx, outcome, args, kwargs):
        mon = f"{self.name}:{fn}"
        recs = ctx["recs"]
        evaluated(mon)
        evaluated("prop:C13")
        S = probe.S
        S.counters[f"loader-source:{fn}:{ctx['source']}"] += 1
        w = {"loader": fn, "source": ctx["source"], "input": ctx["input"]}
        kind, val = outcome
        valid = spec.is_unique(recs) and not any(spec.self_clash(r) for r in recs)
        if any(spec.self_clash(r) for r in recs):
            # C04: a single record can never list its own canonical prefix / URI prefix among its synonyms -
            # whatever route the data took into the library
            evaluated("loader-self-synonym")
            evaluated("prop:C04")
            if not (kind == "raise" and isinstance(val, ValueError)):
                violation(["C04"], "loader-self-synonym", "loader-accepts-record-listing-its-own-canonical-value-as-synonym",
                          denoted=dicts(recs), observed=val if kind == "raise" else dicts(spec.snapshot(val)), **w)
            return
        evaluated("loader-succeeds-iff-clash-free")
        if ctx["strict"]:
            evaluated("prop:C04")
        if kind == "raise" and not valid and ctx["strict"]:
            # C04: "otherwise it raises DuplicateURIPrefixes or DuplicatePrefixes (URI clashes reported first)" - through
            # any loader
            a_ = api()
            uri_clash = any(c[0] == "uri" for c in spec.clashes(recs))
            want_cls = a_.DuplicateURIPrefixes if uri_clash else a_.DuplicatePrefixes
            if not isinstance(val, want_cls):
                violation(["C04"], mon, "loader-raises-another-error-than-the-documented-duplicate-error", expected=want_cls.__name__,
                          observed=val, denoted=dicts(recs), **w)
            return
        if kind == "raise":
            if valid:
                # C13: the loader does not behave as its input dictates; C04: construction through a loader must succeed
                # when no string is claimed twice
                violation(["C13", "C04"], mon, "loader-rejects-valid-input", observed=val, denoted=dicts(recs), options={"strict": ctx["strict"], "delimiter": ctx["delimiter"]}, **w)
            return
        got = spec.snapshot(val)
        w["result"] = dicts(got)
        if not valid:
            if ctx["strict"] is False:
                self._non_strict(fn, ctx, outcome, w)
            else:
                violation(["C04"], mon, "loader-accepts-clashing-input-in-strict-mode", denoted=dicts(recs), **w)
            return
        if fn == "from_reverse_prefix_map":
            by = {r.prefix: r for r in got}
            for r in recs:
                g = by.get(r.prefix)
                if (
                    g is None or len(by) != len(recs) or g.psyn
                    or set(spec.all_u(g)) != set(spec.all_u(r)) or len(g.uri_prefix) != len(r.uri_prefix)
                    or len(spec.all_u(g)) != len(spec.all_u(r))
                ):
                    violation(["C13"], mon, "reverse-map-group-wrong", group=spec.rec_dict(r), **w)
                    return
            return
        if norm_set(got) != norm_set(recs):
            violation(["C13"], mon, "records-differ-from-what-the-input-denotes", denoted=dicts(recs), **w)
            return
        # "each listed (prefix, URI prefix) pair expands and compresses accordingly": the records being right is not
        # enough - the loaded converter must ANSWER as they say (seed C13-V: look-up structures built from a stale
        # per-record cache while the records' fields were correct).  Asked through the public methods, unobserved.
        d = getattr(val, "delimiter", ":")
        sp2 = spec.SpecConverter(got, d)
        if sp2.unique and isinstance(d, str) and d:
            with probe.monitor_mode():
                for r in got[:12]:
                    for p_ in spec.all_p(r):
                        if d in p_:
                            continue
                        q = p_ + d + "1"
                        o = probe.outcome_of(val.expand, q)
                        if o != ("ret", sp2.expand(q)):
                            violation(["C13"], mon, "listed-prefix-does-not-expand-as-dictated", curie=q, observed=o, expected=sp2.expand(q), **w)
                            return
                    for u_ in spec.all_u(r):
                        q = u_ + "1"
                        o = probe.outcome_of(val.compress, q)
                        if o != ("ret", sp2.compress(q)):
                            violation(["C13"], mon, "listed-uri-prefix-does-not-compress-as-dictated", uri=q, observed=o, expected=sp2.compress(q), **w)
                            return


class UpgradeMonitor(Monitor):
    name = "upgrade_prefix_map"

    def pre(self, fn, args, kwargs):
        pm = args[0] if args else kwargs.get("prefix_map")
        if not isinstance(pm, dict) or not _strs(*pm, *pm.values()):
            out_of_domain(self.name, "argtype")
            return None
        return {"pm": dict(pm)}

    def post(self, fn, ctx, outcome, args, kwargs):
        pm = ctx["pm"]
        evaluated(self.name)
        evaluated("prop:C13")
        w = {"prefix_map": pm}
        kind, val = outcome
        if kind == "raise":
            violation(["C13"], self.name, "upgrade_prefix_map-raises", observed=val, **w)
            return
        recs = [spec.rec_of(r) for r in val]
        w["result"] = dicts(recs)
        g = collections.defaultdict(list)
        for p, u in pm.items():
            g[u].append(p)
        want = [spec.Rec(sorted(ps)[0], u, tuple(sorted(ps)[1:]), (), None) for u, ps in g.items()]
        if norm_set(recs) != norm_set(want):
            violation(["C13"], self.name, "canonical-not-lexicographically-first-or-synonyms-incomplete", expected=dicts(want), **w)
            return
        if not spec.is_unique(recs) or any(spec.self_clash(r) for r in recs):
            violation(["C13"], self.name, "upgraded-records-not-strict-valid", **w)
            return
        k2, v2 = outcome_of(api().Converter, val)
        if k2 == "raise":
            violation(["C13"], self.name, "upgraded-records-rejected-by-strict-converter", observed=v2, **w)
            return
        items = list(pm.items())
        if len(items) <= 5:
            orders = itertools.permutations(items)
        else:
            rng = random.Random(len(items))
            orders = [rng.sample(items, k=len(items)) for _ in range(6)]
        up = api().upgrade_prefix_map
        for perm in orders:
            k3, v3 = outcome_of(up, dict(perm))
            if k3 == "raise" or norm_set(spec.rec_of(r) for r in v3) != norm_set(recs):
                violation(["C13"], self.name, "result-depends-on-dictionary-order", order=list(perm), **w)
                return
            probe.S.counters["upgrade-orders"] += 1


# ---------------------------------------------------------------------------
# C14
# ---------------------------------------------------------------------------


def shacl_char_ok(s):
    return all(c.isprintable() and c not in '"<>' for c in s)


def utf8_ok(s):
    try:
        s.encode("utf-8")
        return True
    except UnicodeEncodeError:
        return False


class WriterMonitor(Monitor):
    name = "writer"

    def pre(self, fn, args, kwargs):
        mon = f"{self.name}:{fn}"
        a, kw = list(args), dict(kwargs)
        conv = a.pop(0) if a else kw.pop("converter", None)
        path = a.pop(0) if a else kw.pop("path", None)
        if a or not isinstance(path, (str, Path)):
            out_of_domain(mon, "signature")
            return None
        sp = domain_spec(conv, mon)
        if sp is None:
            return None
        strings = [x for r in sp.recs for x in (*spec.all_p(r), *spec.all_u(r), r.pattern or "")]
        if not all(utf8_ok(s) for s in strings):
            out_of_domain(mon, "not-unicode-scalar")
            return None
        opts = {}
        if fn == "write_jsonld_context":
            opts = {"include_synonyms": bool(kw.pop("include_synonyms", False)), "expand": bool(kw.pop("expand", False))}
            if any((not p) or p.startswith("@") for r in sp.recs for p in spec.all_p(r)):
                out_of_domain(mon, "jsonld-prefix-domain")
                return None
        elif fn == "write_shacl":
            opts = {"include_synonyms": bool(kw.pop("include_synonyms", False))}
            if not sp.recs or not all(shacl_char_ok(s) for s in strings):
                out_of_domain(mon, "shacl-domain")
                return None
        elif fn == "write_tsv":
            kw.pop("header", None)
            if not all(shacl_char_ok(s) for r in sp.recs for s in (r.prefix, r.uri_prefix)):
                out_of_domain(mon, "tsv-domain")
                return None
        if kw:
            out_of_domain(mon, "kwargs")
            return None
        return {"sp": sp, "path": path, "opts": opts}

    def post(self, fn, ctx, outcome, args, kwargs):
        mon = f"{self.name}:{fn}"
        sp, path, opts = ctx["sp"], ctx["path"], ctx["opts"]
        evaluated(mon)
        evaluated("prop:C14")
        w = {"writer": fn, "options": opts, "records": dicts(sp.recs)}
        kind, val = outcome
        if kind == "raise":
            violation(["C14"], mon, "writer-raises", observed=val, **w)
            return
        a = api()
        syn = opts.get("include_synonyms", False)
        want_map = {p: r.uri_prefix for r in sp.recs for p in (spec.all_p(r) if syn else [r.prefix])}
        if fn == "write_extended_prefix_map":
            k, nc = outcome_of(a.load_extended_prefix_map, path)
            if k == "raise":
                violation(["C14"], mon, "written-file-does-not-load", observed=nc, **w)
            elif norm_set(spec.snapshot(nc)) != norm_set(sp.recs):
                violation(["C14"], mon, "epm-round-trip-differs", reloaded=dicts(spec.snapshot(nc)), **w)
        elif fn == "write_jsonld_context":
            k, nc = outcome_of(a.load_jsonld_context, path, strict=False)
            if k == "raise":
                violation(["C14"], mon, "written-file-does-not-load", observed=nc, **w)
            elif dict(nc.prefix_map) != want_map:
                violation(["C14"], mon, "jsonld-round-trip-differs", reloaded=dict(nc.prefix_map), expected=want_map, **w)
        elif fn == "write_shacl":
            k, nc = outcome_of(a.load_shacl, path, strict=False)
            want_pat = {p: r.pattern for r in sp.recs for p in (spec.all_p(r) if syn else [r.prefix]) if r.pattern}
            if k == "raise":
                mech = "written-file-does-not-load"
                if any("\\" in x for r in sp.recs for x in (*spec.all_p(r), *spec.all_u(r))):
                    mech = "shacl-backslash-outside-pattern-not-escaped"
                violation(["C14"], mon, mech, observed=nc, **w)
            elif dict(nc.prefix_map) != want_map:
                mech = "shacl-round-trip-differs"
                if any("\\" in x for r in sp.recs for x in (*spec.all_p(r), *spec.all_u(r))):
                    mech = "shacl-backslash-outside-pattern-not-escaped"
                violation(["C14"], mon, mech, reloaded=dict(nc.prefix_map), expected=want_map, **w)
            elif dict(nc.pattern_map) != want_pat:
                violation(["C14"], mon, "shacl-pattern-round-trip-differs", reloaded=dict(nc.pattern_map), expected=want_pat, **w)
        elif fn == "write_tsv":
            try:
                with open(path, newline="", encoding="utf-8") as f:
                    rows = list(csv.reader(f, delimiter="\t"))
            except Exception as e:  # noqa: BLE001
                violation(["C14"], mon, "written-file-does-not-load", observed=e, **w)
                return
            body = rows[1:]
            if any(len(r) != 2 for r in body) or dict(body) != {r.prefix: r.uri_prefix for r in sp.recs} or len(body) != len(sp.recs):
                violation(["C14"], mon, "tsv-round-trip-differs", rows=rows, **w)
                return
            k, nc = outcome_of(a.load_prefix_map, dict(body))
            if k == "raise" or dict(nc.bimap) != {r.prefix: r.uri_prefix for r in sp.recs}:
                violation(["C14"], mon, "tsv-prefix-map-does-not-load", observed=nc if k == "raise" else dict(nc.bimap), **w)


def install():
    a = api()
    lm = LoaderMonitor()
    for name in LOADERS:
        probe.wrap_attr(a.Converter, name, name, [lm], materialize_loader if name == "from_extended_prefix_map" else None)
    probe.wrap_module_function(a, "upgrade_prefix_map", "upgrade_prefix_map", [UpgradeMonitor()])
    wm = WriterMonitor()
    for name in ("write_extended_prefix_map", "write_jsonld_context", "write_shacl", "write_tsv"):
        probe.wrap_module_function(a, name, name, [wm])

"""Entry point behind ./check: tiers, shards, verdict, evidence, replay files.

  ./check <ID> quick|thorough
  ./check <ID> --replay <file>

exit 0: held on everything observed (known findings are printed, not alarms)
exit 1: VIOLATION property=<ID> replay=<path>
exit 2: INCONCLUSIVE (a deciding monitor never evaluated, anchored code never entered,
        a shard crashed or hit the watchdog, ...) -- never folded into "held".
"""

from __future__ import annotations

import collections
import hashlib
import importlib
import json
import os
import shutil
import subprocess
import sys
import tempfile
import time
from concurrent.futures import ThreadPoolExecutor
from pathlib import Path

ROOT = Path(__file__).resolve().parent.parent
# self-tests against mutated copies redirect evidence / replay output so that committed evidence is not overwritten
OUT = Path(os.environ.get("RTMON_OUT_DIR", str(ROOT)))
PY = "/venv/bin/python"
KNOWN_FILE = ROOT / "known_findings.txt"


def src_dir():
    return os.environ.get("RTMON_SRC", "/repo/src")


def child_env(hashseed):
    env = dict(os.environ)
    env["PYTHONPATH"] = f"{src_dir()}:{ROOT}"
    env["CURIES_VERIF"] = "1"
    env["PYTHONHASHSEED"] = str(hashseed)
    env["PYTHONDONTWRITEBYTECODE"] = "1"
    env.pop("PYTHONWARNINGS", None)
    return env


def load_known():
    """(property, mechanism) -> description, for lines `known: property=<id> mechanism=<m> <text>`."""
    known = {}
    if KNOWN_FILE.exists():
        for line in KNOWN_FILE.read_text().splitlines():
            line = line.strip()
            if not line.startswith("known:"):
                continue
            fields = line[len("known:"):].split()
            kv = dict(f.split("=", 1) for f in fields if "=" in f and f.split("=", 1)[0] in ("property", "mechanism"))
            text = " ".join(f for f in fields if not f.startswith(("property=", "mechanism=")))
            if "property" in kv and "mechanism" in kv:
                known[(kv["property"], kv["mechanism"])] = text
    return known


def run_shards(prop, tier, seed, nshards, total, timeout, only=None, workdir=None):
    outs = []
    work = Path(workdir)

    def one(s):
        out = work / f"shard-{s}.json"
        cmd = [PY, "-X", "utf8", "-m", "rtmon.shard", prop, tier, str(seed), str(s), str(nshards), str(total), str(out)]
        if only is not None:
            cmd.append(str(only))
        hs = (seed * 1000003 + s * 7919 + 1) % 4294967295
        try:
            p = subprocess.run(cmd, env=child_env(hs), cwd=str(ROOT), capture_output=True, text=True, timeout=timeout)
        except subprocess.TimeoutExpired:
            return {"shard": s, "ok": False, "error": f"watchdog: shard exceeded {timeout}s", "hashseed": hs}
        if out.exists():
            try:
                r = json.loads(out.read_text())
                r["hashseed"] = hs
                return r
            except Exception as e:  # noqa: BLE001
                return {"shard": s, "ok": False, "error": f"unreadable result: {e}", "hashseed": hs}
        return {"shard": s, "ok": False, "hashseed": hs,
                "error": f"shard exited {p.returncode} without result: {p.stderr[-1500:]}"}

    shards = [0] if only is not None else list(range(nshards))
    with ThreadPoolExecutor(max_workers=min(16, len(shards))) as ex:
        outs = list(ex.map(one, shards))
    return outs


def run_repo_tests(prop, workdir, timeout=900):
    """The repository's own tests as one more workload for the always-on monitors."""
    out = Path(workdir) / "pytest.json"
    env = child_env(0)
    env["RTMON_OUT"] = str(out)
    tests = str(Path(src_dir()).parent / "tests")
    cmd = [PY, "-X", "utf8", "-m", "pytest", tests, "-q", "-p", "rtmon.pytest_plugin", "-p", "no:cacheprovider",
           "--timeout=600"]
    try:
        subprocess.run(cmd, env=env, cwd=str(Path(src_dir()).parent), capture_output=True, text=True, timeout=timeout)
    except subprocess.TimeoutExpired:
        return {"ok": False, "error": "watchdog: repo tests exceeded timeout", "shard": "pytest"}
    if out.exists():
        r = json.loads(out.read_text())
        r["shard"] = "pytest"
        return r
    return {"ok": False, "error": "pytest leg produced no result", "shard": "pytest"}


def main(argv=None):
    argv = list(sys.argv[1:] if argv is None else argv)
    if not argv:
        print(__doc__)
        return 2
    prop = argv[0].upper()
    rest = argv[1:]
    replay = None
    if "--replay" in rest:
        replay = rest[rest.index("--replay") + 1]
        rest = [a for a in rest if a not in ("--replay", replay)]
    tier = rest[0] if rest else os.environ.get("VERIF_TIER", "quick")
    if tier not in ("quick", "thorough"):
        tier = "quick"
    try:
        seed = int(os.environ.get("VERIF_SEED", "0"))
    except ValueError:
        seed = int(hashlib.sha256(os.environ["VERIF_SEED"].encode()).hexdigest()[:8], 16)
    sys.path.insert(0, str(ROOT))
    wl = importlib.import_module(f"rtmon.workloads.{prop.lower()}")
    t0 = time.time()
    work = tempfile.mkdtemp(prefix=f"rtmon-run-{prop}-")
    try:
        if replay:
            return do_replay(prop, wl, replay, work)
        total = int(os.environ.get("RTMON_CASES", wl.CASES[tier]))
        nshards = int(os.environ.get("RTMON_SHARDS", wl.SHARDS[tier]))
        timeout = wl.TIMEOUT[tier] if hasattr(wl, "TIMEOUT") else (900 if tier == "quick" else 6000)
        results = run_shards(prop, tier, seed, nshards, total, timeout, workdir=work)
        if tier == "thorough" and getattr(wl, "REPO_TESTS", True) and not os.environ.get("RTMON_NO_REPO_TESTS"):
            results.append(run_repo_tests(prop, work))
        return verdict(prop, wl, tier, seed, results, t0, total, nshards)
    finally:
        shutil.rmtree(work, ignore_errors=True)


def _is_private_anchor(a):
    qual = a.split(":", 1)[1]
    if "<locals>" in qual:
        return True
    last = qual.rsplit(".", 1)[-1]
    return last.startswith("_") and not (last.startswith("__") and last.endswith("__"))


def merge(results):
    counters = collections.Counter()
    violations, keys, samples, entered, errors = [], set(), [], set(), []
    cases = 0
    for r in results:
        if not r.get("ok"):
            errors.append(f"shard {r.get('shard')}: {r.get('error', 'failed')}")
            continue
        counters.update(r.get("counters", {}))
        for v in r.get("violations", []):
            v["shard"] = r.get("shard")
            violations.append(v)
        keys.update(r.get("keys", []))
        for s in r.get("samples", []):
            if len(samples) < 8:
                samples.append(s)
        entered.update(r.get("entered", []))
        errors.extend(f"shard {r.get('shard')}: {e}" for e in r.get("monitor_errors", []))
        cases += r.get("cases", 0)
    return counters, violations, keys, samples, entered, errors, cases


def verdict(prop, wl, tier, seed, results, t0, total, nshards):
    counters, violations, keys, samples, entered, errors, cases = merge(results)
    known = load_known()
    mine = [v for v in violations if prop in v["props"]]
    others = collections.Counter(p for v in violations if prop not in v["props"] for p in v["props"])
    known_seen = collections.Counter()
    unknown = []
    for v in mine:
        k = (prop, v["mechanism"])
        if k in known:
            known_seen[k] += 1
        else:
            unknown.append(v)
    deciding = {m: counters.get(f"eval:{m}", 0) for m in wl.DECIDING}
    evaluations = sum(deciding.values()) + sum(counters.get(f"eval:{m}", 0) for m in getattr(wl, "ALSO_COUNT", []))
    reasons = list(errors[:5])
    for m, n in deciding.items():
        if n == 0:
            reasons.append(f"deciding monitor {m} never evaluated")
    # anchors are matched on the qualified name only: moving code to another module is not a reason to doubt a run
    entered_names = {e.split(":", 1)[1] for e in entered if ":" in e}
    missing = [a for a in wl.ANCHORS if a.split(":", 1)[1] not in entered_names]
    # private helpers and local handler functions may be renamed or inlined by a harmless refactoring: their absence is
    # reported in the evidence but only a *public* anchored function that was never entered makes the run inconclusive
    soft = set(getattr(wl, "SOFT_ANCHORS", []))
    hard_missing = [a for a in missing if not _is_private_anchor(a) and a not in soft]
    if hard_missing and not errors:
        reasons.append("anchored public functions never entered: " + ", ".join(hard_missing))
    # a converter that claims a string twice is outside every reference-model monitor's domain; no workload builds one
    # on purpose (unless it says so), so meeting one means the library let a clash through somewhere: the monitors
    # that were silent about that converter were not looking
    if not getattr(wl, "ALLOWS_NON_STRICT", False):
        ns = sum(n for k, n in counters.items() if k.startswith("ood:") and k.endswith(":not-strict"))
        if ns:
            reasons.append(f"{ns} monitored calls on converters whose records claim a string twice (outside the monitors' domain)")
    if len(keys) < 2 and not unknown:
        reasons.append(f"only {len(keys)} distinct non-trivial cases")
    wall = round(time.time() - t0, 2)
    # replay files + VIOLATION lines (deduplicated by monitor+mechanism, a few witnesses each)
    lines = []
    by_mech = collections.defaultdict(list)
    for v in unknown:
        by_mech[(v["monitor"], v["mechanism"])].append(v)
    rp = OUT / "replays"
    rp.mkdir(parents=True, exist_ok=True)
    n_files = 0
    for (mon, mech), vs in sorted(by_mech.items()):
        v = vs[0]
        name = f"{prop}-{tier}-s{seed}-{n_files}.json"
        n_files += 1
        path = rp / name
        path.write_text(json.dumps({
            "property": prop, "tier": tier, "seed": seed, "total_cases": total, "nshards": nshards,
            "monitor": mon, "mechanism": mech, "occurrences": len(vs),
            "case": v.get("case"), "shard": v.get("shard"), "witness": v["witness"], "all_props": v["props"],
        }, indent=1, ensure_ascii=False))
        lines.append(f"VIOLATION property={prop} replay={path.relative_to(ROOT) if OUT == ROOT else path}")
    for (p, mech), n in sorted(known_seen.items()):
        print(f"KNOWN-FINDING: property={p} mechanism={mech} {known[(p, mech)]} (observed {n}x in this run)")
    evidence = {
        "property_id": prop,
        "tier": tier,
        "seed": seed,
        "level": getattr(wl, "LEVEL", "exploration"),
        "coverage": {
            "evaluations": int(evaluations),
            "distinct_nontrivial": len(keys),
            "rule": wl.RULE,
            "samples": samples or [{"note": "no sample recorded"}],
            "cases": cases,
            "monitor_evaluations": {k[5:]: v for k, v in sorted(counters.items()) if k.startswith("eval:") and not k.startswith("eval:prop:")},
            "out_of_domain": {k[4:]: v for k, v in sorted(counters.items()) if k.startswith("ood:")},
            "calls_observed": {k[6:]: v for k, v in sorted(counters.items()) if k.startswith("calls:")},
            "workload": {k[3:]: v for k, v in sorted(counters.items()) if k.startswith("wl:")},
            "anchors_entered": sorted(a for a in wl.ANCHORS if a not in missing),
            "anchors_missing": missing,
            "shards": [{"shard": r.get("shard"), "PYTHONHASHSEED": r.get("hashseed"), "cases": r.get("cases"), "wall_s": r.get("wall_s")} for r in results],
            "known_findings_seen": {f"{p}:{m}": n for (p, m), n in known_seen.items()},
            "violations_of_other_properties_seen": dict(others),
            "verdict": "violated" if unknown else ("inconclusive" if reasons else "held on what was observed"),
            "inconclusive_reasons": reasons,
        },
        "assumptions": getattr(wl, "ASSUMPTIONS", []),
        "wall_s": wall,
        "violations": len(unknown),
    }
    if getattr(wl, "EXHAUSTIVE", None):
        ex = wl.EXHAUSTIVE(tier, counters)
        if ex:
            evidence["coverage"].update(ex)
    (OUT / "evidence").mkdir(parents=True, exist_ok=True)
    (OUT / "evidence" / f"{prop}.json").write_text(json.dumps(evidence, indent=1, ensure_ascii=False))
    for line in lines:
        print(line)
    if unknown:
        for (mon, mech), vs in sorted(by_mech.items()):
            print(f"  {mon}: {mech} x{len(vs)}")
        return 1
    if reasons:
        for r in reasons:
            print(f"INCONCLUSIVE property={prop} reason={r.splitlines()[-1][:300] if r else r}")
        for e in errors[:3]:
            print(e, file=sys.stderr)
        return 2
    print(f"OK property={prop} tier={tier} seed={seed} cases={cases} evaluations={evaluations} distinct_nontrivial={len(keys)} wall_s={wall}")
    return 0


def do_replay(prop, wl, path, work):
    data = json.loads(Path(path).read_text())
    g = data.get("case", {}).get("case_index") if isinstance(data.get("case"), dict) else None
    if not isinstance(g, int):
        print(f"replay file has no generated case index (witness from {data.get('shard')}); witness:")
        print(json.dumps(data.get("witness"), indent=1, ensure_ascii=False)[:3000])
        return 2
    res = run_shards(prop, data.get("tier", "quick"), data["seed"], 1, data.get("total_cases", 1), 600, only=g, workdir=work)
    counters, violations, *_ = merge(res)
    same = [v for v in violations if prop in v["props"] and v["mechanism"] == data["mechanism"]]
    print(f"replayed case {g} (seed {data['seed']}): {len(violations)} violations, {len(same)} with mechanism {data['mechanism']}")
    for v in same[:3]:
        print(json.dumps(v["witness"], ensure_ascii=False)[:1500])
    known = load_known()
    if same and (prop, data["mechanism"]) not in known:
        print(f"VIOLATION property={prop} replay={path}")
        return 1
    return 0


if __name__ == "__main__":
    sys.exit(main())

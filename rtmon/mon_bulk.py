"""C16: a bulk call must transform every cell as the dictated scalar method would; fail atomically (files).

The oracle is the scalar method itself, asked by the monitor for every cell captured before the call; the trace of
scalar calls the bulk operation made is recorded as evidence (it is how the current implementation works, but the
property does not require it).
"""

from __future__ import annotations

import csv
import io
from pathlib import Path

from . import probe, spec
from .mon_core import api, domain_spec
from .probe import S, Monitor, evaluated, out_of_domain, violation

PD = {
    "pd_compress": ("compress", "compress_or_standardize"),
    "pd_expand": ("expand", "expand_or_standardize"),
    "pd_standardize_prefix": ("standardize_prefix", None),
    "pd_standardize_curie": ("standardize_curie", None),
    "pd_standardize_uri": ("standardize_uri", None),
}
FILE = {
    "file_compress": ("compress", "compress_or_standardize"),
    "file_expand": ("expand", "expand_or_standardize"),
}
SCALARS = {"compress", "compress_or_standardize", "expand", "expand_or_standardize", "standardize_prefix", "standardize_curie", "standardize_uri"}


def parse_table(data: bytes, delimiter: str):
    text = data.decode("utf-8")
    return list(csv.reader(io.StringIO(text, newline=""), delimiter=delimiter))


def _isna(x):
    try:
        import pandas as pd

        return bool(pd.isna(x))
    except Exception:  # noqa: BLE001
        return x is None


class BulkMonitor(Monitor):
    name = "bulk"

    def pre(self, fn, args, kwargs):
        mon = f"{self.name}:{fn}"
        conv = args[0]
        # the oracle is the converter's own scalar method, so user subclasses (e.g. overriding the documented
        # standardize_identifier hook) are in the domain as well; only converters that are not strict are not
        if not isinstance(conv, api().Converter):
            out_of_domain(mon, "not-a-converter")
            return None
        try:
            if not spec.is_unique(spec.snapshot(conv)) or not isinstance(conv.delimiter, str) or not conv.delimiter:
                out_of_domain(mon, "not-strict")
                return None
        except Exception:  # noqa: BLE001
            out_of_domain(mon, "no-records")
            return None
        a, kw = list(args[1:]), dict(kwargs)
        ctx = {"conv": conv, "depth": S.depth, "fn": fn}
        if fn in PD:
            df = a.pop(0) if a else kw.pop("df", None)
            column = a.pop(0) if a else kw.pop("column", None)
            target = a.pop(0) if a else kw.pop("target_column", None)
            strict = a.pop(0) if a else kw.pop("strict", False)
            pt = a.pop(0) if a else kw.pop("passthrough", False)
            amb = a.pop(0) if a else kw.pop("ambiguous", False)
            if a or kw or df is None or column is None:
                out_of_domain(mon, "signature")
                return None
            try:
                cells = list(df[column])
                others = {c: list(df[c]) for c in df.columns}
                order = list(df.columns)
                index = list(df.index)
            except Exception:  # noqa: BLE001
                out_of_domain(mon, "no-such-column")
                return None
            if not all(isinstance(x, str) for x in cells):
                out_of_domain(mon, "non-string-cells")
                return None
            plain, ambiguous = PD[fn]
            ctx.update(kind="pd", df=df, column=column, target=target, cells=cells, others=others, order=order, index=index,
                       scalar=ambiguous if (amb and ambiguous) else plain, strict=bool(strict), pt=bool(pt), amb=bool(amb))
        else:
            path = a.pop(0) if a else kw.pop("path", None)
            column = a.pop(0) if a else kw.pop("column", None)
            sep = kw.pop("sep", None)
            header = kw.pop("header", True)
            strict, pt, amb = kw.pop("strict", False), kw.pop("passthrough", False), kw.pop("ambiguous", False)
            if a or kw or not isinstance(path, (str, Path)) or not isinstance(column, int) or isinstance(column, bool):
                out_of_domain(mon, "signature")
                return None
            delimiter = sep or "\t"
            try:
                p = Path(path).expanduser().resolve()
                data = p.read_bytes()
                table = parse_table(data, delimiter)
            except Exception:  # noqa: BLE001
                out_of_domain(mon, "unreadable")
                return None
            if header and (not table or not table[0]):
                out_of_domain(mon, "no-header-row")
                return None
            # ("any column index": a negative index counts from the end of each row, as Python's - and the library's -
            #  list indexing does; seed C16-T broke exactly column=-1)
            plain, ambiguous = FILE[fn]
            ctx.update(kind="file", path=p, bytes=data, delimiter=delimiter, head=table[0] if header else None,
                       rows=table[1:] if header else table, column=column,
                       scalar=ambiguous if amb else plain, strict=bool(strict), pt=bool(pt), amb=bool(amb))
        ctx["prev_tracing"] = S.tracing
        ctx["start"] = len(S.events)
        S.tracing = True
        return ctx

    def post(self, fn, ctx, outcome, args, kwargs):
        mon = f"{self.name}:{fn}"
        conv = ctx["conv"]
        events = S.events[ctx["start"]:]
        S.tracing = ctx["prev_tracing"]
        if not ctx["prev_tracing"]:
            del S.events[ctx["start"]:]
        calls = [
            ev for ev in events
            if ev["depth"] == ctx["depth"] + 1 and ev["fn"] in SCALARS and ev["args"][0] is conv and "outcome" in ev
        ]
        evaluated(mon)
        evaluated("prop:C16")
        S.counters["bulk:scalar-calls-seen"] += len(calls)
        kind, val = outcome
        flags = {"strict": ctx["strict"], "passthrough": ctx["pt"], "ambiguous": ctx["amb"]}
        w = {"operation": fn, "flags": flags, "records": [spec.rec_dict(r) for r in spec.snapshot(conv)], "delimiter": conv.delimiter}
        if ctx["kind"] == "pd":
            cells = ctx["cells"]
            w.update(column=ctx["column"], target_column=ctx["target"], cells=cells)
        else:
            rows = ctx["rows"]
            cells = [r[ctx["column"]] if -len(r) <= ctx["column"] < len(r) else None for r in rows]
            w.update(column=ctx["column"], separator=ctx["delimiter"], header=ctx["head"], rows=rows)
        # The oracle: what the dictated scalar method, with the dictated flags, answers for each cell - asked by the
        # monitor itself (monitor mode: not traced, no failpoint), so it does not depend on *how* the bulk operation is
        # implemented.  The recorded trace of scalar calls made by the bulk call is kept as evidence and cross-check.
        scalar = getattr(conv, ctx["scalar"])
        expected = []
        first_failure = None
        for i, cell in enumerate(cells):
            if cell is None:  # row too short for the column
                expected.append(("raise", IndexError("row too short")))
                first_failure = i if first_failure is None else first_failure
                continue
            o = probe.outcome_of(scalar, cell, strict=ctx["strict"], passthrough=ctx["pt"])
            expected.append(o)
            if o[0] == "raise" and first_failure is None:
                first_failure = i
        injected = S.failpoint is not None
        if calls and not injected:
            # cross-check: if the bulk call went through the public scalar methods, they must be the dictated ones
            for i, ev in enumerate(calls):
                ekw = ev["kwargs"]
                if ev["fn"] != ctx["scalar"] or bool(ekw.get("strict", False)) != ctx["strict"] or bool(ekw.get("passthrough", False)) != ctx["pt"]:
                    S.counters["bulk:trace-shows-other-scalar-or-flags"] += 1
                    break
        if kind == "raise":
            if first_failure is None and not injected:
                mech = "bulk-raises-although-no-cell-failed"
                violation(["C16"], mon, mech, observed=val, **w)
            if ctx["kind"] == "file":
                evaluated("bulk:atomicity")
                now = ctx["path"].read_bytes() if ctx["path"].exists() else None
                if now != ctx["bytes"]:
                    violation(["C16"], mon, "file-changed-although-the-operation-raised", observed=val,
                              first_failing_row=first_failure, bytes_before=ctx["bytes"].decode("utf-8", "replace")[:400],
                              bytes_after=None if now is None else now.decode("utf-8", "replace")[:400], **w)
            return
        if first_failure is not None:
            violation(["C16"], mon, "bulk-swallows-a-failing-cell", failing_row=first_failure, failing_cell=cells[first_failure],
                      scalar_outcome=expected[first_failure], **w)
            return
        results = [o[1] for o in expected]
        if ctx["kind"] == "pd":
            df = ctx["df"]
            out_col = ctx["column"] if ctx["target"] is None else ctx["target"]
            try:
                got = list(df[out_col])
            except Exception as e:  # noqa: BLE001
                violation(["C16"], mon, "output-column-missing", observed=e, **w)
                return
            ok = len(got) == len(results) and all((_isna(g) if r is None else (g == r and not _isna(g))) for g, r in zip(got, results))
            if not ok:
                violation(["C16"], mon, "data-frame-cells-differ-from-scalar-results", got=got, scalar_results=results, **w)
                return
            for c, vals in ctx["others"].items():
                if c == out_col:
                    continue
                try:
                    same = list(df[c]) == vals
                except Exception:  # noqa: BLE001
                    same = False
                if not same:
                    violation(["C16"], mon, "other-column-changed" if c != ctx["column"] else "source-column-changed-despite-target_column", column_changed=c, **w)
                    return
            if list(df.index) != ctx["index"]:
                violation(["C16"], mon, "row-labels-or-row-order-changed", index_before=ctx["index"], index_after=list(df.index), **w)
                return
            want_order = ctx["order"] + ([out_col] if out_col not in ctx["order"] else [])
            if list(df.columns) != want_order:
                violation(["C16"], mon, "columns-reordered-or-lost", columns=list(df.columns), **w)
            return
        # file
        try:
            new = parse_table(ctx["path"].read_bytes(), ctx["delimiter"])
        except Exception as e:  # noqa: BLE001
            violation(["C16"], mon, "rewritten-file-unreadable", observed=e, **w)
            return
        want = []
        if ctx["head"] is not None:
            want.append(ctx["head"])
        for r, res in zip(rows, results):
            r2 = list(r)
            r2[ctx["column"]] = res or ""
            want.append(r2)
        if new != want:
            mech = "file-cells-differ-from-scalar-results-or-other-cells-changed"
            if any("\r" in c for r in rows for c in r) and [[c.replace("\r\n", "\n").replace("\r", "\n") for c in r] for r in want] == new:
                mech = "carriage-return-in-cell-rewritten"
            violation(["C16"], mon, mech, expected_table=want, observed_table=new, **w)


def install():
    conv = api().Converter
    bm = BulkMonitor()
    for name in (*PD, *FILE):
        probe.wrap_attr(conv, name, name, [bm])
    return bm

"""Stand-in for the `python-multipart` package, which is not installed in this sandbox.

FastAPI refuses to build a router with Form(...) parameters unless `python_multipart` is importable, and Starlette
parses `application/x-www-form-urlencoded` bodies with its QuerystringParser.  Only what those two need is provided:
`__version__`, `QuerystringParser` (callback protocol of python-multipart 0.0.20) and `multipart.parse_options_header`.
It is a harness dependency (trusted base of the FastAPI POST leg of C18), not code under test; when the real package
is importable it is used instead and this module does nothing.
"""

from __future__ import annotations

import sys
import types


class QuerystringParser:
    def __init__(self, callbacks, strict_parsing=False, max_size=float("inf")):
        self.callbacks = callbacks
        self.buf = bytearray()

    def _cb(self, name, *args):
        f = self.callbacks.get(name)
        if f is not None:
            f(*args)

    def write(self, data: bytes) -> int:
        self.buf.extend(data)
        return len(data)

    def finalize(self) -> None:
        data = bytes(self.buf)
        self.buf = bytearray()
        pos = 0
        for field in data.split(b"&") if data else []:
            start = pos
            pos += len(field) + 1
            if not field:
                continue
            self._cb("on_field_start")
            eq = field.find(b"=")
            if eq < 0:
                self._cb("on_field_name", data, start, start + len(field))
            else:
                self._cb("on_field_name", data, start, start + eq)
                self._cb("on_field_data", data, start + eq + 1, start + len(field))
            self._cb("on_field_end")
        self._cb("on_end")


def parse_options_header(value):
    if not value:
        return b"", {}
    if isinstance(value, str):
        value = value.encode("latin-1")
    parts = value.split(b";")
    options = {}
    for p in parts[1:]:
        k, _, v = p.strip().partition(b"=")
        options[k.strip().lower()] = v.strip().strip(b'"')
    return parts[0].strip().lower(), options


def install() -> bool:
    """Returns True when the real package is present (nothing installed), False when the stand-in was put in place."""
    try:
        import python_multipart  # noqa: F401

        return True
    except ImportError:
        pass
    if "starlette.formparsers" in sys.modules:
        raise RuntimeError("stand-in must be installed before starlette.formparsers is imported")
    pkg = types.ModuleType("python_multipart")
    pkg.__version__ = "0.0.20"
    pkg.__path__ = []
    pkg.QuerystringParser = QuerystringParser
    sub = types.ModuleType("python_multipart.multipart")
    sub.parse_options_header = parse_options_header
    sub.QuerystringParser = QuerystringParser
    pkg.multipart = sub
    sys.modules["python_multipart"] = pkg
    sys.modules["python_multipart.multipart"] = sub
    return False

#!/bin/sh
# Re-run the quick check of its property against every stored seeded change (scratch copies; /repo untouched) and
# refresh seeded/<id>/meta.json -> check_result. usage: tools/reeval_seeds.sh [jobs]
cd "$(dirname "$0")/.." || exit 2
jobs=${1:-4}
mkdir -p /tmp/rtmon-reeval
ls -d seeded/*/ | while read d; do
  id=$(basename "$d"); prop=${id%%-*}
  echo "$d $prop /tmp/rtmon-reeval/$id.json"
done | xargs -P "$jobs" -L 1 sh -c '/venv/bin/python tools/try_seed.py "$0" "$1" > "$2" 2>&1'
/venv/bin/python - <<'PY'
import json, glob
from pathlib import Path
bad = 0
for f in sorted(glob.glob('/tmp/rtmon-reeval/*.json')):
    name = Path(f).stem
    try:
        r = json.load(open(f))
    except Exception:
        print(name, "UNREADABLE"); bad += 1; continue
    mp = Path('seeded') / name / 'meta.json'
    m = json.loads(mp.read_text())
    prop = m['property']
    m['check_result'] = {"command": f"RTMON_SRC=<scratch copy with the change>/src ./check {prop} quick", "exit": r["checks"][prop]["exit"], "caught": r["caught"],
                         "first_witness": r.get("witness"), "summary_lines": r["checks"][prop]["lines"][-6:]}
    m['confirmed_by'].update(demo_exit_on_unchanged_code=r["demo_clean_exit"], demo_exit_with_change=r["demo_changed_exit"],
                             baseline_tests_not_passing_with_change=r["baseline_tests_not_passing"])
    mp.write_text(json.dumps(m, indent=1, ensure_ascii=False))
    ok = r.get("valid_seed") and r.get("caught")
    bad += not ok
    print(name, "valid" if r.get("valid_seed") else "INVALID", "CAUGHT" if r.get("caught") else "MISSED", (r.get("witness") or {}).get("mechanism"))
print("seeds not (valid and caught):", bad)
PY
rm -rf /tmp/rtmon-reeval

#!/venv/bin/python
"""Rewrite the table of DESIGN.md section 9.1 from two logs of `./check <ID> <tier>` summary lines.

usage: tools/measured_table.py <quick log> <thorough log> "<where / when the runs were made>"
Lines used: OK property=C01 tier=quick seed=0 cases=480 evaluations=1311006 distinct_nontrivial=1731 wall_s=13.92
"""
import re
import sys
from pathlib import Path

ROOT = Path(__file__).resolve().parent.parent
PAT = re.compile(r"^(OK|VIOLATION|INCONCLUSIVE) property=(C\d\d) tier=(\w+) seed=(\d+) cases=(\d+) evaluations=(\d+) distinct_nontrivial=(\d+) wall_s=([\d.]+)")


def read(path):
    out = {}
    for line in Path(path).read_text().splitlines():
        m = PAT.match(line.strip())
        if m:
            out[m.group(2)] = m
    return out


def cell(m):
    return "-" if m is None else f"{m.group(5)} / {m.group(6)} / {m.group(7)} / {m.group(8)} s" + ("" if m.group(1) == "OK" else f" ({m.group(1)})")


def main(argv):
    q, t, where = read(argv[0]), read(argv[1]), argv[2]
    rows = [f"| {p} | {cell(q.get(p))} | {cell(t.get(p))} |" for p in (f"C{i:02d}" for i in range(1, 21))]
    seeds = sorted({m.group(4) for m in list(q.values()) + list(t.values())})
    block = "\n".join([
        "### 9.1 Measured", "",
        f"The budgets of the table above were plans. Measured numbers from the final runs of all twenty checks in /verif against /repo ({where}; "
        f"VERIF_SEED {', '.join(seeds)}). \"cases\" counts generated cases plus, for thorough, the repository's tests run under the monitors; "
        "the committed `evidence/<ID>.json` files are those of the thorough runs.", "",
        "| id | quick: cases / monitor evaluations / distinct non-trivial / wall | thorough (16 shards + repo tests): cases / evaluations / distinct / wall |",
        "|---|---|---|", *rows, "",
    ])
    text = (ROOT / "DESIGN.md").read_text()
    text2 = re.sub(r"### 9\.1 Measured.*?(?=C20 thorough enumerates)", lambda _: block + "\n", text, count=1, flags=re.S)
    assert text2 != text
    (ROOT / "DESIGN.md").write_text(text2)
    print(len(q), "quick,", len(t), "thorough rows")


if __name__ == "__main__":
    main(sys.argv[1:])

#!/venv/bin/python
"""Regenerate MANIFEST.json from the workload modules that exist (run from /verif)."""
import importlib
import json
import sys
from pathlib import Path

ROOT = Path(__file__).resolve().parent.parent
sys.path.insert(0, str(ROOT))
props = [json.loads(l) for l in (ROOT / "properties.jsonl").read_text().splitlines() if l.strip()]
checks, na = [], []
for p in props:
    pid = p["id"]
    path = ROOT / "rtmon" / "workloads" / f"{pid.lower()}.py"
    if not path.exists():
        na.append({"property_id": pid, "reason": "check not built yet in this round (runtime-monitoring workload planned in DESIGN.md)"})
        continue
    wl = importlib.import_module(f"rtmon.workloads.{pid.lower()}")
    checks.append({
        "property_id": pid,
        "quick_cmd": f"./check {pid} quick",
        "thorough_cmd": f"./check {pid} thorough",
        "evidence_file": f"/verif/evidence/{pid}.json",
        "replay_cmd_template": f"./check {pid} --replay {{path}}",
        "engine": "rtmon",
        "level_claimed": {
            "category": getattr(wl, "LEVEL", "exploration"),
            "text": getattr(wl, "LEVEL_TEXT", "Held on the executions observed: every monitored call of the real functions, driven by generated hostile inputs, was compared online with an independent reference model / postcondition; nothing is proved beyond the cases counted in the evidence file."),
            "design_ref": getattr(wl, "DESIGN_REF", "DESIGN.md sections 1-5"),
        },
        "level_note": "; ".join(getattr(wl, "ASSUMPTIONS", [])) or "reference models in rtmon/spec.py; CPython 3.12 and the installed third-party packages",
        "technique": getattr(wl, "TECHNIQUE", "runtime monitoring: reference-model / postcondition monitors on the real functions under generated workloads"),
    })
manifest = {
    "version": 1,
    "setup_cmd": "true",
    "hooks": {
        "guard": "CURIES_VERIF",
        "enable": "no source hooks: the harness (rtmon.install) wraps the public functions of the code imported from /repo/src when CURIES_VERIF=1 (set by ./check for its child processes); /repo is imported from the working tree via PYTHONPATH=/repo/src",
        "baseline_off_cmd": "cd /repo && env -u CURIES_VERIF /venv/bin/python -m pytest -ra -q -p no:cacheprovider --timeout=900 --continue-on-collection-errors",
        "source_commits": [],
        "add_only": True,
    },
    "engines": [{
        "name": "rtmon",
        "path": "/verif/rtmon",
        "serves_properties": [c["property_id"] for c in checks],
        "kind_free_text": "runtime monitoring harness: transparent wrappers on the real curies callables, reference-model and postcondition monitors, frame monitors, trace checkers, fault injection at wrapper failpoints; sharded seeded workloads",
    }],
    "checks": checks,
    "not_applicable": na,
    "notes": "See DESIGN.md. ./check <ID> quick|thorough; exit 0 held / 1 VIOLATION / 2 INCONCLUSIVE. Known findings: known_findings.txt.",
}
(ROOT / "MANIFEST.json").write_text(json.dumps(manifest, indent=1) + "\n")
print(f"{len(checks)} checks, {len(na)} not applicable")

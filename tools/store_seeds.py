#!/venv/bin/python
"""Store confirmed seeded changes under /verif/seeded/<Cnn>-<letter>/ with a meta.json.

usage: tools/store_seeds.py <letter> <results dir> <first-pass results dir or -> "<author text>" [--strengthening-file F]

<results dir> holds the JSON objects printed by tools/try_seed.py (one per seed, named <Cnn>-*.json, field "seed" = the
directory with patch.diff / demo.py / notes.md).  <first-pass results dir> (optional) holds the results of the same
seeds against the checks as they were before any strengthening: a seed missed there is recorded as such.
"""
from __future__ import annotations

import json
import shutil
import sys
from pathlib import Path

ROOT = Path(__file__).resolve().parent.parent


def main(argv):
    letter, resdir, firstdir, author = argv[0], Path(argv[1]), argv[2], argv[3]
    strengthening = {}
    if "--strengthening-file" in argv:
        strengthening = json.loads(Path(argv[argv.index("--strengthening-file") + 1]).read_text())
    for f in sorted(resdir.glob("C*.json")):
        r = json.loads(f.read_text())
        prop = r["property"]
        sid = f"{prop}-{letter}"
        src = Path(r["seed"])
        dst = ROOT / "seeded" / sid
        dst.mkdir(parents=True, exist_ok=True)
        for name in ("patch.diff", "demo.py", "notes.md"):
            shutil.copy(src / name, dst / name)
        first_missed = False
        if firstdir != "-":
            ff = Path(firstdir) / f.name
            if ff.exists():
                first_missed = not json.loads(ff.read_text()).get("caught")
        chk = r["checks"][prop]
        meta = {
            "id": sid,
            "property": prop,
            "author": author,
            "breaks": prop,
            "needs_to_manifest": "see notes.md (written by the author of the change)",
            "confirmed_by": {
                "command": f"tools/try_seed.py seeded/{sid} {prop}",
                "demo_exit_on_unchanged_code": r["demo_clean_exit"],
                "demo_exit_with_change": r["demo_changed_exit"],
                "baseline_tests_not_passing_with_change": r["baseline_tests_not_passing"],
                "patch_applies": r["patch_applies"],
            },
            "check_result": {
                "command": f"RTMON_SRC=<scratch copy with the change>/src ./check {prop} quick",
                "exit": chk["exit"],
                "caught": bool(r.get("caught")),
                "first_witness": r.get("witness"),
                "summary_lines": chk["lines"],
            },
            "missed_by_the_checks_as_first_built": first_missed,
            "strengthening": strengthening.get(prop) if first_missed else None,
        }
        (dst / "meta.json").write_text(json.dumps(meta, indent=1, ensure_ascii=False) + "\n")
        print(sid, "caught" if r.get("caught") else "MISSED", "(missed at first)" if first_missed else "")


if __name__ == "__main__":
    main(sys.argv[1:])

#!/venv/bin/python
"""Run every quick check against a behaviour-preserving refactoring: all must stay silent (exit 0).

usage: tools/try_benign.py <dir with patch.diff> [--props C01,C02,...]
Works on a scratch copy of /repo's working tree (never /repo itself); prints one JSON object.
"""
from __future__ import annotations

import json
import os
import shutil
import subprocess
import sys
import tempfile
import time
from concurrent.futures import ThreadPoolExecutor
from pathlib import Path

ROOT = Path(__file__).resolve().parent.parent
PY = "/venv/bin/python"
sys.path.insert(0, str(ROOT / "tools"))
from try_seed import stable_pass  # noqa: E402


def main(argv):
    d = Path(argv[0]).resolve()
    props = argv[argv.index("--props") + 1].split(",") if "--props" in argv else [f"C{i:02d}" for i in range(1, 21)]
    res = {"refactoring": str(d)}
    scratch = Path(tempfile.mkdtemp(prefix="rtmon-benign-"))
    try:
        shutil.copytree("/repo/src", scratch / "src")
        shutil.copytree("/repo/tests", scratch / "tests")
        a = subprocess.run(["patch", "-p1", "--no-backup-if-mismatch", "-i", str(d / "patch.diff")], cwd=str(scratch), capture_output=True, text=True)
        res["patch_applies"] = a.returncode == 0
        if a.returncode != 0:
            res["patch_output"] = (a.stdout + a.stderr)[-400:]
            print(json.dumps(res, indent=1))
            return 2
        env = dict(os.environ, PYTHONPATH=str(scratch / "src"), PYTHONDONTWRITEBYTECODE="1")
        env.pop("CURIES_VERIF", None)
        junit = scratch / "junit.xml"
        subprocess.run([PY, "-m", "pytest", "tests", "-q", "-p", "no:cacheprovider", "--timeout=600", f"--junitxml={junit}"],
                       env=env, cwd=str(scratch), capture_output=True, text=True)
        res["baseline_tests_not_passing"] = stable_pass(junit)
        env2 = dict(os.environ, RTMON_SRC=str(scratch / "src"))

        def one(pid):
            t0 = time.time()
            e = dict(env2, RTMON_OUT_DIR=str(scratch / "out" / pid))
            c = subprocess.run([str(ROOT / "check"), pid, "quick"], env=e, cwd=str(ROOT), capture_output=True, text=True)
            lines = [ln for ln in c.stdout.splitlines() if ln.startswith(("VIOLATION", "INCONCLUSIVE", "  "))]
            w = None
            if c.returncode == 1:
                reps = sorted((scratch / "out" / pid / "replays").glob(f"{pid}-*.json"))
                if reps:
                    x = json.loads(reps[0].read_text())
                    w = {"monitor": x["monitor"], "mechanism": x["mechanism"], "witness": json.dumps(x["witness"], ensure_ascii=False)[:900]}
            return pid, {"exit": c.returncode, "wall_s": round(time.time() - t0, 1), "lines": lines[:6], "witness": w}

        with ThreadPoolExecutor(max_workers=3) as ex:
            res["checks"] = dict(ex.map(one, props))
        res["alarms"] = sorted(p for p, r in res["checks"].items() if r["exit"] != 0)
    finally:
        shutil.rmtree(scratch, ignore_errors=True)
    print(json.dumps(res, indent=1, ensure_ascii=False))
    return 1 if res.get("alarms") else 0


if __name__ == "__main__":
    sys.exit(main(sys.argv[1:]))

#!/bin/sh
# For every "fixed:" entry of known_findings.txt: revert that commit of /repo in a scratch copy of /repo/src (outside /repo
# and /verif) and run the quick check of its property against the copy - the violation must be reported again.
# usage: tools/revert_fixes.sh   -> prints one line per fix commit; exit 1 if a reverted fix is not reported.
cd "$(dirname "$0")/.." || exit 2
work=$(mktemp -d /tmp/rtmon-revert-XXXXXX); bad=0
grep '^fixed:' known_findings.txt | while read _ prop commit rest; do
  p=${prop#property=}; d=$work/$commit; mkdir -p "$d"; cp -r /repo/src "$d/src"
  (cd "$d" && git -C /repo show "$commit" -- src | patch -R -p1 -s) || { echo "$commit $p REVERT-FAILED"; continue; }
  r=$(RTMON_SRC=$d/src RTMON_OUT_DIR=$d/out ./check "$p" quick 2>&1 | grep -E "^(OK|VIOLATION|INCONCLUSIVE)" | head -1 | cut -d' ' -f1)
  echo "$commit $p ${r:-NO-VERDICT}"
  rm -rf "$d"
done | tee "$work/out.txt"
grep -vc " VIOLATION$" "$work/out.txt" >/dev/null 2>&1; n=$(grep -v " VIOLATION$" "$work/out.txt" | wc -l)
rm -rf "$work"
[ "$n" -eq 0 ]

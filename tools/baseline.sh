#!/bin/sh
# Run the repository's test-suite with the guard OFF and compare with BASELINE.json's stable_pass list.
cd /repo || exit 2
out=$(mktemp)
env -u CURIES_VERIF /venv/bin/python -m pytest -q -p no:cacheprovider --timeout=900 --continue-on-collection-errors --junitxml="$out" >/dev/null 2>&1
/venv/bin/python - "$out" <<'PY'
import json, sys, xml.etree.ElementTree as ET
base = set(json.load(open('/root/.vp/BASELINE.json'))['stable_pass'])
passed = set()
for tc in ET.parse(sys.argv[1]).getroot().iter('testcase'):
    if not any(ch.tag in ('failure', 'error', 'skipped') for ch in tc):
        passed.add(f"{tc.get('classname')}::{tc.get('name')}")
missing = sorted(base - passed)
print(f"stable tests passing: {len(base & passed)}/{len(base)}")
for m in missing:
    print("NOT PASSING:", m)
sys.exit(1 if missing else 0)
PY
rc=$?
rm -f "$out"
exit $rc

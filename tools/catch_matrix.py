#!/venv/bin/python
"""Rebuild the catch matrix in DESIGN.md (between the CATCH-MATRIX markers) from selftest/results.json and seeded/*/meta.json."""
import json
import re
from pathlib import Path

ROOT = Path(__file__).resolve().parent.parent
out = ["### 12.1 Mutants (`selftest/mutants.py`, run by `selftest/run.py`)", "",
       "| mutant | property | survives the repository's tests | quick check | what fired |", "|---|---|---|---|---|"]
res = json.loads((ROOT / "selftest" / "results.json").read_text()) if (ROOT / "selftest" / "results.json").exists() else []
for r in res:
    chk = r.get("checks", {}).get(r["property"], {})
    fired = "; ".join(l.strip() for l in chk.get("lines", []) if l.startswith("  "))[:140]
    out.append(f"| {r['mutant']} | {r['property']} | {'yes' if r.get('survives_repo_tests') else 'no'} | {'VIOLATION' if r.get('caught') else 'missed'} | {fired} |")
out += ["", f"{sum(1 for r in res if r.get('caught'))} of {len(res)} mutants are reported by the quick check of their property; "
        f"{sum(1 for r in res if r.get('survives_repo_tests'))} of them pass the repository's own 114 baseline tests.", "",
        "### 12.2 Changes seeded by independent sub-agents (`seeded/<id>/`)", "",
        "| seed | property | caught by (monitor: mechanism) | missed at first? | strengthening it prompted |", "|---|---|---|---|---|"]
n = c = 0
for d in sorted((ROOT / "seeded").glob("*/meta.json")):
    m = json.loads(d.read_text())
    n += 1
    c += bool(m["check_result"]["caught"])
    w = m["check_result"].get("first_witness") or {}
    out.append(f"| {m['id']} | {m['property']} | {w.get('monitor', '-')}: {w.get('mechanism', '-')} | {'yes' if m.get('missed_by_the_checks_as_first_built') else 'no'} | {m.get('strengthening') or ''} |")
out += ["", f"{c} of {n} seeded changes are reported by the quick check of their property (all {n} pass the repository's baseline tests and fail their author's demonstration)."]
text = (ROOT / "DESIGN.md").read_text()
block = "<!-- CATCH-MATRIX:BEGIN -->\n" + "\n".join(out) + "\n<!-- CATCH-MATRIX:END -->"
if "<!-- CATCH-MATRIX:BEGIN -->" in text:
    text = re.sub(r"<!-- CATCH-MATRIX:BEGIN -->.*?<!-- CATCH-MATRIX:END -->", lambda _: block, text, flags=re.S)
else:
    text += "\n" + block + "\n"
(ROOT / "DESIGN.md").write_text(text)
print(f"{len(res)} mutants, {n} seeds")

#!/venv/bin/python
"""Rebuild the catch matrix in DESIGN.md (between the CATCH-MATRIX markers) from selftest/results.json and seeded/*/meta.json."""
import json
import re
from pathlib import Path

ROOT = Path(__file__).resolve().parent.parent
out = ["### 12.1 Mutants (`selftest/mutants.py`, run by `selftest/run.py`)", "",
       "| mutant | property | survives the repository's tests | quick check | what fired |", "|---|---|---|---|---|"]
res = json.loads((ROOT / "selftest" / "results.json").read_text()) if (ROOT / "selftest" / "results.json").exists() else []
for r in res:
    chk = r.get("checks", {}).get(r["property"], {})
    fired = "; ".join(l.strip() for l in chk.get("lines", []) if l.startswith("  "))[:140]
    out.append(f"| {r['mutant']} | {r['property']} | {'yes' if r.get('survives_repo_tests') else 'no'} | {'VIOLATION' if r.get('caught') else 'missed'} | {fired} |")
out += ["", f"{sum(1 for r in res if r.get('caught'))} of {len(res)} mutants are reported by the quick check of their property; "
        f"{sum(1 for r in res if r.get('survives_repo_tests'))} of them pass the repository's own 114 baseline tests.", "",
        "### 12.2 Changes seeded by independent sub-agents (`seeded/<id>/`)", "",
        "| seed | property | caught by (monitor: mechanism) | missed at first? | strengthening it prompted |", "|---|---|---|---|---|"]
n = c = 0
for d in sorted((ROOT / "seeded").glob("*/meta.json")):
    m = json.loads(d.read_text())
    n += 1
    c += bool(m["check_result"]["caught"])
    w = m["check_result"].get("first_witness") or {}
    caught_by = f"{w.get('monitor', '-')}: {w.get('mechanism', '-')}" if m["check_result"]["caught"] else "NOT CAUGHT"
    out.append(f"| {m['id']} | {m['property']} | {caught_by} | {'yes' if m.get('missed_by_the_checks_as_first_built') else 'no'} | {m.get('strengthening') or m.get('not_caught_reason') or ''} |")
out += ["", f"{c} of {n} seeded changes are reported by the quick check of their property (all {n} pass the repository's baseline tests and fail their author's demonstration)."]
bres = json.loads((ROOT / "selftest" / "benign_results.json").read_text()) if (ROOT / "selftest" / "benign_results.json").exists() else []
out += ["", "### 12.3 Behaviour-preserving refactorings (`selftest/benign/`, run by `selftest/run_benign.py`)", "",
        "Behaviour-preserving changes written by independent sub-agents. First batch (area1..area6, three each): the "
        "implementation is restructured substantially - public methods no longer calling each other, private helpers renamed, "
        "merged or removed, bulk operations no longer going through the public scalar methods, regular expressions replaced "
        "by scanners, recursive algorithms made iterative - while all public behaviour is preserved (verified by their "
        "authors with differential runs against the original). Second batch (unspecified1..4): observable details that the "
        "twenty properties do not promise are deliberately changed - order of records and synonym lists, exception "
        "messages and more specific ValueError subclasses, number of duplicate summaries, file layout, tie-breaking among "
        "equally short URI prefixes, the delimiter of derived converters, HTTP response bodies, removal of the GitHub "
        "special case of discover. Third batch (restructureA..E): correct restructurings of the kind the seeded changes get "
        "wrong - caches and indexes that are invalidated at the right places, unified twin code paths, streamed inputs. "
        "Fourth batch (hygieneA..D): API hygiene - read-only views and properties, private copies of the caller's records, "
        "slots and explicit copy protocols, stricter argument checks outside every quantifier, more logging. Fifth batch "
        "(perfA..D, the counterpart of the thirteenth round of seeded changes): performance optimisations that are right - "
        "a record index behind get_record, a candidate index behind add_record / chain, a lazily built trie, a bisect-based "
        "longest-prefix index replacing the trie on the query path, linear duplicate scans, per-call memoisation of distinct "
        "data-frame cells, streamed file rewrites, a prefix index in the mapping service, a non-strict constructor and a "
        "direct trie lookup inside discover, a fast path in the resolver's re-split. Sixth batch (featA..D, the counterpart of the fifteenth round): new features and "
        "modernisations done right - container and value protocols on Converter (__len__, __iter__, __contains__, __getitem__, "
        "__eq__ with __hash__ = None, __copy__, pickling without the trie), case_sensitive= on the CURIE-side lookups, "
        "Record.description carried through every derivation and the extended prefix map, a complete ordering on Reference, "
        "pydantic model_validator / classmethod validators, target_column= / output_path= / encoding= and file_standardize_* for "
        "tables, a frozen hashable Triple with sorted / de-duplicated writing, a TSV loader and stream targets for the writers, "
        "luid_pattern= and discover_uri_prefixes, predicates= / default_content_type= / route= for the mapping service, "
        "require_prefix= and w3c_validation=. Seventh batch (nearA..D): changes placed deliberately on the boundary of a property - what a hasty "
        "reader might think is promised and the wording does not promise: add_prefix no longer calling add_record (a shared private "
        "helper, arguments validated, repeated synonyms stored once, new message texts), records kept sorted and synonyms kept in arrival "
        "order, frozenset / MappingProxyType views and a lazily built trie, chain building its result with private look-up tables and "
        "returning sorted records, reconciliation validating before copying and raising CycleDetected first, discover counting with a "
        "Counter and rejecting an empty-string delimiter, lexicographic tie-breaking among equally short URI prefixes of a reverse map, "
        "another file layout for every writer, file operations streaming through a temporary file with os.replace, references "
        "enforcing immutability with __setattr__ / __delattr__ (AttributeError instead of ValidationError), one framework-independent "
        "core behind both web services with another 422 body, w3c.py without regular expressions. All twenty quick checks are run "
        "against each; any exit code other than 0 is an alarm.", "",
        "| refactoring | repository tests | checks raising an alarm |", "|---|---|---|"]
for r in bres:
    out.append(f"| {r['refactoring']} | {'114/114' if r.get('baseline_tests_not_passing') == [] else r.get('baseline_tests_not_passing')} | {', '.join(r.get('alarms') or []) or 'none'} |")
out += ["", f"{sum(1 for r in bres if r.get('alarms') == [])} of {len(bres)} refactorings leave all twenty checks silent. "
        "(As first run, two of them - area1-R1 and area1-R2, where public methods stop calling each other - made C03 and C02 "
        "exit INCONCLUSIVE because an anchored public function was no longer entered; see section 11.5. A sixteenth change of "
        "the second batch, csv writers with lineterminator \"\\n\", made C15 and C16 report a violation - correctly: it is kept "
        "as seeded/C15-E.)"]
text = (ROOT / "DESIGN.md").read_text()
block = "<!-- CATCH-MATRIX:BEGIN -->\n" + "\n".join(out) + "\n<!-- CATCH-MATRIX:END -->"
if "<!-- CATCH-MATRIX:BEGIN -->" in text:
    text = re.sub(r"<!-- CATCH-MATRIX:BEGIN -->.*?<!-- CATCH-MATRIX:END -->", lambda _: block, text, flags=re.S)
else:
    text += "\n" + block + "\n"
(ROOT / "DESIGN.md").write_text(text)
print(f"{len(res)} mutants, {n} seeds")

#!/venv/bin/python
"""Confirm a seeded change and run the checks against it, on a scratch copy of /repo (never /repo itself).

usage: tools/try_seed.py <dir with patch.diff, demo.py> <property id> [--tier quick|thorough] [--also ID,ID] [--keep]

Steps (all on a copy of /repo's working tree under a fresh temp dir, removed afterwards):
  1. demo.py on the unchanged copy            -> must exit 0
  2. apply patch.diff (patch -p1)             -> must apply
  3. repository tests on the changed copy     -> 114 baseline tests must still pass
  4. demo.py on the changed copy              -> must exit non-zero
  5. ./check <ID> <tier> with RTMON_SRC=<copy>/src, output redirected -> exit 1 + VIOLATION = caught
Prints one JSON object.
"""

from __future__ import annotations

import json
import os
import shutil
import subprocess
import sys
import tempfile
import time
from pathlib import Path

ROOT = Path(__file__).resolve().parent.parent
PY = "/venv/bin/python"


def stable_pass(junit):
    import xml.etree.ElementTree as ET

    base = set(json.load(open("/root/.vp/BASELINE.json"))["stable_pass"])
    passed = set()
    for tc in ET.parse(junit).getroot().iter("testcase"):
        if not any(ch.tag in ("failure", "error", "skipped") for ch in tc):
            passed.add(f"{tc.get('classname')}::{tc.get('name')}")
    return sorted(base - passed)


def main(argv):
    d = Path(argv[0]).resolve()
    prop = argv[1]
    tier = argv[argv.index("--tier") + 1] if "--tier" in argv else "quick"
    also = argv[argv.index("--also") + 1].split(",") if "--also" in argv else []
    res = {"seed": str(d), "property": prop, "tier": tier}
    scratch = Path(tempfile.mkdtemp(prefix="rtmon-seed-"))
    try:
        shutil.copytree("/repo/src", scratch / "src")
        shutil.copytree("/repo/tests", scratch / "tests")
        env = dict(os.environ, PYTHONPATH=str(scratch / "src"), PYTHONDONTWRITEBYTECODE="1")
        env.pop("CURIES_VERIF", None)
        demo = d / "demo.py"
        p = subprocess.run([PY, str(demo)], env=env, cwd=str(scratch), capture_output=True, text=True, timeout=600)
        res["demo_clean_exit"] = p.returncode
        a = subprocess.run(["patch", "-p1", "--no-backup-if-mismatch", "-i", str(d / "patch.diff")], cwd=str(scratch), capture_output=True, text=True)
        res["patch_applies"] = a.returncode == 0
        if a.returncode != 0:
            res["patch_output"] = (a.stdout + a.stderr)[-500:]
            print(json.dumps(res, indent=1))
            return 2
        junit = scratch / "junit.xml"
        subprocess.run([PY, "-m", "pytest", "tests", "-q", "-p", "no:cacheprovider", "--timeout=600", f"--junitxml={junit}"],
                       env=env, cwd=str(scratch), capture_output=True, text=True)
        res["baseline_tests_not_passing"] = stable_pass(junit)
        p = subprocess.run([PY, str(demo)], env=env, cwd=str(scratch), capture_output=True, text=True, timeout=600)
        res["demo_changed_exit"] = p.returncode
        res["demo_changed_output"] = (p.stdout + p.stderr)[-600:]
        env2 = dict(os.environ, RTMON_SRC=str(scratch / "src"), RTMON_OUT_DIR=str(scratch / "out"))
        res["checks"] = {}
        for pid in [prop, *also]:
            t0 = time.time()
            c = subprocess.run([str(ROOT / "check"), pid, tier], env=env2, cwd=str(ROOT), capture_output=True, text=True)
            lines = [ln for ln in c.stdout.splitlines() if ln.startswith(("VIOLATION", "INCONCLUSIVE", "OK", "  ", "KNOWN"))]
            res["checks"][pid] = {"exit": c.returncode, "wall_s": round(time.time() - t0, 1), "lines": lines[:10]}
            if c.returncode == 1 and pid == prop:
                # keep one witness
                reps = sorted((scratch / "out" / "replays").glob(f"{pid}-*.json"))
                if reps:
                    w = json.loads(reps[0].read_text())
                    res["witness"] = {"monitor": w["monitor"], "mechanism": w["mechanism"], "witness": json.dumps(w["witness"], ensure_ascii=False)[:700]}
        res["valid_seed"] = res["demo_clean_exit"] == 0 and res["demo_changed_exit"] != 0 and not res["baseline_tests_not_passing"]
        res["caught"] = res["checks"][prop]["exit"] == 1
    finally:
        if "--keep" not in argv:
            shutil.rmtree(scratch, ignore_errors=True)
    print(json.dumps(res, indent=1, ensure_ascii=False))
    return 0 if res.get("caught") else 1


if __name__ == "__main__":
    sys.exit(main(sys.argv[1:]))
